#!/bin/bash
# Run the pinned suite (guard off) in the given tree (default /repo) and print pass/fail counts.
# usage: selftest/suite.sh [repo_dir]
D=${1:-/repo}
cd "$D" || exit 2
unset OPENPINCH_VERIF
OUT=$(timeout 1800 /venv/bin/python -m pytest -q -p no:cacheprovider --timeout=900 -x  2>&1 | tail -3)
echo "$OUT"
echo "$OUT" | grep -Eq "(339|340|341) passed" && ! echo "$OUT" | grep -q failed
