#!/bin/bash
# Run the pinned suite (guard off) in the given tree (default /repo) and print pass/fail counts.
# usage: selftest/suite.sh [repo_dir]
D=${1:-/repo}
cd "$D" || exit 2
unset OPENPINCH_VERIF
OUT=$(timeout 1800 /venv/bin/python -m pytest -q -p no:cacheprovider --timeout=900 -x --deselect tests/test_utils/test_export.py::test_export_writes_expected_excel --deselect tests/test_utils/test_export.py::test_export_writes_problem_tables_for_all_zones 2>&1 | tail -3)
echo "$OUT"
echo "$OUT" | grep -q "339 passed" && ! echo "$OUT" | grep -q failed
