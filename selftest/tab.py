"""Development helper: run N generated traces of a world in-process and tabulate violations by (check, site)."""
import os, sys, collections, importlib, warnings
sys.path.insert(0, '/verif'); sys.path.insert(0, os.environ.get('VERIF_REPO', '/repo'))
warnings.filterwarnings('ignore')
from sim import prng
pid, n = sys.argv[1], int(sys.argv[2])
start = int(sys.argv[3]) if len(sys.argv) > 3 else 0
w = importlib.import_module('worlds.' + pid.lower()).WORLD
w.setup_node()
cnt = collections.Counter(); ex = {}
for ri in range(start, start + n):
    rs = prng.run_seed(pid, int(os.environ.get('VERIF_SEED', '0')), ri)
    tr = w.generate(rs, ri)
    res = w.execute(tr)
    for v in (res['violations'] if os.environ.get('TAB_ALL') else res['violations'][:1]):
        k = (v['check'], v['site'])
        cnt[k] += 1
        ex.setdefault(k, (ri, v['detail'], len(tr['steps'])))
for k, c in cnt.most_common():
    print(c, k, ex[k])
print('total runs', n, 'violating', sum(cnt.values()))
