"""Catalogue of realistic breaking changes (search/replace on the current /repo tree).
expect='kill'  : the quick check of `prop` must exit 1 on it.
expect='silent': negative control - the change does not break the property as stated; the check must stay at exit 0.
Every 'kill' entry was first shown to pass the pinned suite (selftest/mutants.py --suite)."""

SC = "OpenPinch/classes/stream_collection.py"
ST = "OpenPinch/classes/stream.py"

PTB = "OpenPinch/classes/problem_table.py"

MUTANTS = [
    # ------------------------------------------------------------------ C08
    dict(name="m6_filter_tol_zero", prop="C08", edits=[(PTB, "        mask = np.nanmin(gaps, axis=0) > tol\n", "        mask = np.nanmin(gaps, axis=0) > 0\n")]),
    dict(name="c08_interp_ratio_from_top", prop="C08", edits=[(PTB, "        ratio = (temps - row_bot[t_idx]) / denom\n", "        ratio = (row_top[t_idx] - temps) / denom\n")], note="equal at mid-points only"),
    dict(name="c08_return_requested_count", prop="C08", edits=[(PTB, "        self.data = new_data\n        return inserted\n", "        self.data = new_data\n        return int(T_insert.size)\n")]),
    dict(name="c08_drop_interp_key", prop="C08", edits=[(PTB, "    PT.H_NET_V.value,\n", "")], note="one curve column no longer interpolated"),
    dict(name="c08_mid_cp_from_upper", prop="C08", expect="silent", edits=[(PTB, "                row_bot,\n                copy_interpolation=False,\n                zero_non_interpolation=False,\n                relevant_cp_source=row_bot,\n", "                row_bot,\n                copy_interpolation=False,\n                zero_non_interpolation=False,\n                relevant_cp_source=row_top,\n")], note="negative control: C08 does not constrain the heat capacity of new rows (that is C05)"),
    dict(name="c08_bottom_adjust_broken", prop="C08", edits=[(PTB, "        adjusted[delta_idx] = last_temp - adjusted[t_idx]\n", "        adjusted[delta_idx] = adjusted[delta_idx]\n")], note="lower neighbour keeps its old width"),
    dict(name="c08_group_dedupe_off", prop="C08", edits=[(PTB, "            if bucket and abs(bucket[-1] - T_vals[i]) <= tol:\n                continue\n", "            if bucket and abs(bucket[-1] - T_vals[i]) <= 0:\n                continue\n")], note="near-duplicates inside one request both inserted"),
    dict(name="c08_top_end_value_zero", prop="C08", edits=[(PTB, "                if copy_interpolation:\n                    target_row[col_idx] = value\n", "                if copy_interpolation:\n                    target_row[col_idx] = value if key != PT.H_COLD.value else 0.0\n")], note="rows outside the old range take 0 instead of the end value for one curve"),
    dict(name="c08_mid_width_below_again", prop="C08", edits=[(PTB, "            rows[i, delta_idx] = temps_chain[i] - temps_chain[i + 1]\n", "            rows[i, delta_idx] = temps_chain[i + 1] - temps_chain[i + 2]\n")], note="re-introduces the repaired defect"),
    dict(name="c08_bottom_order_again", prop="C08", edits=[(PTB, "        temps_sorted = np.sort(T_vals) if is_top_block else np.sort(T_vals)[::-1]\n", "        temps_sorted = np.sort(T_vals)\n"), (PTB, "        return (block[::-1] if is_top_block else block), row_neighbor\n", "        return block[::-1], row_neighbor\n")], note="re-introduces the repaired defect"),
    dict(name="c08_inside_strict_no_tol", prop="C08", edits=[(PTB, "            inside = (upper - tol > mid_temps) & (mid_temps > lower + tol)\n", "            inside = (upper - 5 * tol > mid_temps) & (mid_temps > lower + 5 * tol)\n")], note="temperatures 2 tol from a row pass the filter but are silently not inserted while being counted"),
    dict(name="c08_second_call_stale_index", prop="C08", edits=[(PTB, "        T_insert = self._Ts_needing_insertion(T_vals)  \n", "        T_insert = self._Ts_needing_insertion(T_vals) if self.data.shape[0] < 9 else T_vals\n")], note="duplicate filter skipped once the table has grown to 9 rows: needs a history"),

    # ------------------------------------------------------------------ C19
    dict(name="m1_add_no_dirty", prop="C19", edits=[(SC, "        self._streams[key] = stream\n        self._needs_sort = True\n", "        self._streams[key] = stream\n")]),
    dict(name="m2_remove_no_dirty", prop="C19", edits=[(SC, "            del self._streams[stream_name]\n            self._needs_sort = True\n", "            del self._streams[stream_name]\n")]),
    dict(name="m3_dtcont_no_update", prop="C19", edits=[(ST, "        self._dt_cont = value\n        self._update_attributes()\n", "        self._dt_cont = value\n")]),
    dict(name="c19_sortkey_no_dirty", prop="C19", edits=[(SC, "            self._sort_key = key\n        self._needs_sort = True\n", "            self._sort_key = key\n")]),
    dict(name="c19_len_from_cache", prop="C19", edits=[(SC, "        return len(self._streams)\n", "        return len(self._sorted_cache) if not self._needs_sort else len(self._streams)\n")], expect="silent", note="equivalent: cache length equals member count whenever the cache is clean"),
    dict(name="c19_htc_no_htr", prop="C19", edits=[(ST, "            if self._htc != 0.0:\n                self._htr = 1 / self._htc\n", "            if self._htc != 0.0 and self._htr is None:\n                self._htr = 1 / self._htc\n")]),
    dict(name="c19_set_heat_flow_signed_span", prop="C19", edits=[(ST, "            self._CP = value / abs(self._t_supply - self._t_target)\n", "            self._CP = value / (self._t_supply - self._t_target)\n")]),
    dict(name="c19_clash_counter_from_0_overwrite", prop="C19", edits=[(SC, "        while prevent_overwrite and key in self._streams:\n            key = f\"{original_key}_{counter}\"\n            counter += 1\n", "        if prevent_overwrite and key in self._streams:\n            key = f\"{original_key}_{counter}\"\n            counter += 1\n")], note="second clash overwrites name_1"),
    dict(name="c19_concat_overwrite_other", prop="C19", edits=[(SC, "        for stream in other._streams.values():\n            combined.add(stream)\n", "        for stream in other._streams.values():\n            combined.add(stream, prevent_overwrite=len(combined) < 3)\n")], note="concatenation overwrites on clash once the result has >=3 members"),
    dict(name="c19_cold_shift_down", prop="C19", edits=[(ST, "        self._t_max_star = self._t_max + self._dt_cont\n", "        self._t_max_star = self._t_max + abs(self._dt_cont) * (1 if self._heat_flow else -1)\n")], note="cold max shifted the wrong way only for zero-duty streams"),
    dict(name="c19_kind_frozen_again", prop="C19", edits=[(ST, "        self._t_max_star = self._t_max - self._dt_cont\n        self._type = StreamType.Hot.value\n", "        self._t_max_star = self._t_max - self._dt_cont\n        if self._type is None:\n            self._type = StreamType.Hot.value\n")], note="re-introduces the repaired defect on the hot side"),
    dict(name="c19_replace_by_name_again", prop="C19", edits=[(SC, "        for stream in stream_dict.values():\n            self.add(stream)\n", "        for stream in stream_dict.values():\n            self._streams[stream.name] = stream\n")], note="re-introduces the repaired defect"),
    dict(name="c19_getitem_int_unsorted", prop="C19", edits=[(SC, "        if isinstance(key, int):\n            self._ensure_sorted()\n", "        if isinstance(key, int):\n")]),
    dict(name="c19_tsupply_setter_partial", prop="C19", edits=[(ST, "        self._t_supply = value\n        self._update_attributes()\n", "        self._t_supply = value\n        if self._t_supply != self._t_target:\n            self._update_attributes()\n")], note="t_supply setter skips recomputation when it lands on t_target"),
]
