"""Catalogue of realistic breaking changes (search/replace on the current /repo tree).
expect='kill'  : the quick check of `prop` must exit 1 on it.
expect='silent': negative control - the change does not break the property as stated; the check must stay at exit 0.
Every 'kill' entry was first shown to pass the pinned suite (selftest/mutants.py --suite)."""

SC = "OpenPinch/classes/stream_collection.py"
ST = "OpenPinch/classes/stream.py"

MUTANTS = [
    # ------------------------------------------------------------------ C19
    dict(name="m1_add_no_dirty", prop="C19", edits=[(SC, "        self._streams[key] = stream\n        self._needs_sort = True\n", "        self._streams[key] = stream\n")]),
    dict(name="m2_remove_no_dirty", prop="C19", edits=[(SC, "            del self._streams[stream_name]\n            self._needs_sort = True\n", "            del self._streams[stream_name]\n")]),
    dict(name="m3_dtcont_no_update", prop="C19", edits=[(ST, "        self._dt_cont = value\n        self._update_attributes()\n", "        self._dt_cont = value\n")]),
    dict(name="c19_sortkey_no_dirty", prop="C19", edits=[(SC, "            self._sort_key = key\n        self._needs_sort = True\n", "            self._sort_key = key\n")]),
    dict(name="c19_len_from_cache", prop="C19", edits=[(SC, "        return len(self._streams)\n", "        return len(self._sorted_cache) if not self._needs_sort else len(self._streams)\n")], expect="silent", note="equivalent: cache length equals member count whenever the cache is clean"),
    dict(name="c19_htc_no_htr", prop="C19", edits=[(ST, "            if self._htc != 0.0:\n                self._htr = 1 / self._htc\n", "            if self._htc != 0.0 and self._htr is None:\n                self._htr = 1 / self._htc\n")]),
    dict(name="c19_set_heat_flow_signed_span", prop="C19", edits=[(ST, "            self._CP = value / abs(self._t_supply - self._t_target)\n", "            self._CP = value / (self._t_supply - self._t_target)\n")]),
    dict(name="c19_clash_counter_from_0_overwrite", prop="C19", edits=[(SC, "        while prevent_overwrite and key in self._streams:\n            key = f\"{original_key}_{counter}\"\n            counter += 1\n", "        if prevent_overwrite and key in self._streams:\n            key = f\"{original_key}_{counter}\"\n            counter += 1\n")], note="second clash overwrites name_1"),
    dict(name="c19_concat_overwrite_other", prop="C19", edits=[(SC, "        for stream in other._streams.values():\n            combined.add(stream)\n", "        for stream in other._streams.values():\n            combined.add(stream, prevent_overwrite=len(combined) < 3)\n")], note="concatenation overwrites on clash once the result has >=3 members"),
    dict(name="c19_cold_shift_down", prop="C19", edits=[(ST, "        self._t_max_star = self._t_max + self._dt_cont\n", "        self._t_max_star = self._t_max + abs(self._dt_cont) * (1 if self._heat_flow else -1)\n")], note="cold max shifted the wrong way only for zero-duty streams"),
    dict(name="c19_kind_frozen_again", prop="C19", edits=[(ST, "        self._t_max_star = self._t_max - self._dt_cont\n        self._type = StreamType.Hot.value\n", "        self._t_max_star = self._t_max - self._dt_cont\n        if self._type is None:\n            self._type = StreamType.Hot.value\n")], note="re-introduces the repaired defect on the hot side"),
    dict(name="c19_replace_by_name_again", prop="C19", edits=[(SC, "        for stream in stream_dict.values():\n            self.add(stream)\n", "        for stream in stream_dict.values():\n            self._streams[stream.name] = stream\n")], note="re-introduces the repaired defect"),
    dict(name="c19_getitem_int_unsorted", prop="C19", edits=[(SC, "        if isinstance(key, int):\n            self._ensure_sorted()\n", "        if isinstance(key, int):\n")]),
    dict(name="c19_tsupply_setter_partial", prop="C19", edits=[(ST, "        self._t_supply = value\n        self._update_attributes()\n", "        self._t_supply = value\n        if self._t_supply != self._t_target:\n            self._update_attributes()\n")], note="t_supply setter skips recomputation when it lands on t_target"),
]
