#!/venv/bin/python
"""Regenerate MANIFEST.json from the table below (keeps it valid and consistent)."""
import json, os
V = os.path.dirname(os.path.dirname(os.path.abspath(__file__)))
CLAIMED = {
 "C08": dict(
   text="seeded search over histories of insertion requests on one mutable problem table (real builder and synthetic tables; columns filled, cascades shifted and the temperature scale moved in place between requests) against a piecewise-linear reference model of the original table, plus a monitor on every insert call the real pipeline makes; sampling, not proof",
   note="trusts numpy.interp as the curve model and the 24-name curve-column list written out in worlds/c08.py; row 0 width exempt; fault set empty (in-memory object)",
   technique="deterministic simulation: seeded request histories vs piecewise-linear reference model; in-pipeline call monitor; ddmin replay"),
 "C11": dict(
   text="seeded search over interleaved call histories of 1-3 simulated callers in one long-lived process (service calls with dict / model / reused-model inputs, PinchProblem load from model / JSON / workbook / CSV bundle, target, export), with injected aborts (SimAbort, a BaseException, at the n-th library line), injected ordinary exceptions (MemoryError / OSError at the n-th library line, travelling through the library's own handlers), natural failures and clock jumps; every completed call is compared byte-for-byte with the same call in a pristine forked process, inputs and earlier results are re-snapshotted, and a fingerprint of all OpenPinch module state is compared before/after; sampling, not proof",
   note="trusts the pristine-fork oracle (cross-validated every run against genuinely fresh interpreters under other PYTHONHASHSEED values) and the module-state fingerprint walker in sim/fingerprint.py; interleaving at call granularity only",
   technique="deterministic simulation with fault injection: seeded scheduler over callers, abort / injected-exception / clock faults, pristine-process oracle, module-state fingerprint, ddmin replay"),
 "C16": dict(
   text="seeded search over load/target/export histories on PinchProblem wrappers and the bare service, fed by a simulated producer that writes the same logical problem as dict, model, value-with-unit dict, JSON file, CSV bundle (directory and pair) and template workbook on a simulated disk, with untouched files loaded again after the caller edited what the first load handed out, read errors, torn files, lost rows, same-mtime rewrites, write errors, aborts and injected ordinary exceptions inside target/export, and clock faults; results compared across channels and with a per-wrapper reference model; exported workbooks re-opened and sheet names checked; sampling, not proof",
   note="trusts openpyxl/pandas as the producer of the simulated files and the two-field wrapper model in worlds/c16.py; cross-file comparisons use rel 1e-9 of total duty, in-memory forms are compared exactly",
   technique="deterministic simulation with fault injection: seeded channel/wrapper histories on a simulated disk and clock, read/write/abort/injected-exception faults, reference model, ddmin replay"),
 "C18": dict(
   text="seeded search over histories of solve / build_stream_collection / setter / metric-read requests on 1-2 heat-pump cycle objects across the property library's fluids, plus the targeting pipeline's own objective function evaluated on generated multi-unit cascades with every solve/build call it makes monitored, and its Carnot-style placement objectives evaluated repeatedly with the same argument objects (first law, emitted latent streams, same answer, arguments untouched), with the first- and second-law clauses evaluated as state invariants after every step and order-independence of emitted stream sets checked against the first answer for the same solved state; sampling, not proof",
   note="trusts independent high-level CoolProp PropsSI calls for saturation pressures and regime classification; fault set limited to natural solve failures (no I/O on this surface)",
   technique="deterministic simulation: seeded request histories on cycle objects, state invariants + order-independence oracle, ddmin replay"),
 "C19": dict(
   text="seeded search over call histories on shared Stream / StreamCollection objects (setters in any order, collection mutators and queries, aliasing between collections) against a reference model and the stated equations, with batch operations that fail part-way (None element, unhashable key, raising source, failing replace) as the fault of this surface; sampling, not proof",
   note="trusts the reference model in worlds/c19.py (re-synchronised through the un-cached key queries after a failed batch); no I/O, clock or concurrency on this surface; htc != 0",
   technique="deterministic simulation with fault injection: seeded operation histories incl. batch operations failing part-way, vs reference model, ddmin replay"),
}
NA = {
 "C01": "equality of Qh/Qc/Qr with an exact cascade for every stream set: pure function of one call's input; no schedule, clock, I/O, fault or call history for a simulator to control",
 "C02": "first-law closure of every returned record: algebra over one call's inputs and outputs; pure",
 "C03": "utility duties sum to targets: pure function of stream set x utility set",
 "C04": "utility GCC feasibility and lowest-grade-first optimality: needs an LP/closed-form optimum per input; pure function of input",
 "C05": "composite curves faithful to the streams: per-row integral check of one call's tables; pure (the history-bearing part, row bookkeeping under repeated insertion, is C08)",
 "C06": "reported pinch temperatures are zeros of the exact residual: pure function of input",
 "C07": "pocket-free GCC is the greatest monotone minorant: deterministic function of one input table; no external schedule or fault",
 "C09": "additivity over zones and DI <= TS <= sum of zones: relation between records of one call; pure",
 "C10": "zone-tree construction conserves streams: function of the label set inside one deterministic call; pure",
 "C12": "invariance under permutation/split/translation/scaling/mirroring: metamorphic relation between independent pure calls; input reordering is not a schedule",
 "C13": "graph payloads reproduce table columns: per-call comparison of output points with tables; pure (cross-call graph accumulation is covered under C11)",
 "C14": "totality and well-formedness on every valid problem: input x option space; its one history clause (identical when repeated) is subsumed by C11's check, the property as a whole is not claimed",
 "C15": "area/units/cost follow their definitions: numerical identity per input; pure",
 "C17": "curve simplification within tolerance: pure function of a polyline",
 "C20": "effectiveness-NTU / LMTD consistency: pure scalar functions",
}
built = [p for p in CLAIMED if os.path.exists(os.path.join(V, "worlds", p.lower() + ".py"))]
checks = []
for p in sorted(built):
    c = CLAIMED[p]
    checks.append(dict(property_id=p, quick_cmd=f"./check {p} --tier quick", thorough_cmd=f"./check {p} --tier thorough",
        evidence_file=f"evidence/{p}.json", replay_cmd_template=f"./check {p} --replay {{path}}", engine="sim",
        level_claimed=dict(category="exploration", text=c["text"], design_ref=f"DESIGN.md §4 {p}"), level_note=c["note"], technique=c["technique"]))
na = [dict(property_id=p, reason=r) for p, r in sorted(NA.items())]
for p in sorted(CLAIMED):
    if p not in built:
        na.append(dict(property_id=p, reason="simulation world designed (DESIGN.md §4) but not yet built in this commit; will be claimed when its check exists"))
hooks_file = os.path.join(V, "hooks.json")
hooks = json.load(open(hooks_file)) if os.path.exists(hooks_file) else []
m = dict(version=1,
  setup_cmd="/venv/bin/python -c \"import sys; sys.path.insert(0,'/repo'); import OpenPinch, os; assert os.path.realpath(OpenPinch.__file__).startswith('/repo/'), OpenPinch.__file__; print('OpenPinch from', OpenPinch.__file__)\"",
  hooks=dict(guard="OPENPINCH_VERIF",
     enable="no hooks are compiled in: every seam (clock, disk, abort injection) is a monkeypatch made inside the simulated node; OPENPINCH_VERIF is reserved and unused",
     baseline_off_cmd="cd /repo && env -u OPENPINCH_VERIF /venv/bin/python -m pytest -ra -q -p no:cacheprovider --timeout=900 --continue-on-collection-errors",
     source_commits=hooks, add_only=True),
  engines=[dict(name="sim", path="sim/", serves_properties=sorted(built), kind_free_text="seeded deterministic simulation: explicit JSON traces generated from one integer, executed in pristine forked nodes, reference-model oracles checked after every step, ddmin shrinking, replay files")],
  checks=checks, not_applicable=na,
  notes="Technique family: deterministic simulation with fault injection. Five properties quantify over histories (C08, C11, C16, C18, C19) and are decided by simulation; the other fifteen are pure functions of one call's input and are honestly not applicable (DESIGN.md §0, §5). Exit codes: 0 held (KNOWN-FINDING lines possible), 1 violation, 2 harness error. Genuine defects repaired in /repo by 'fix:' commits are listed in known_findings.txt.")
json.dump(m, open(os.path.join(V, "MANIFEST.json"), "w"), indent=1)
import jsonschema
jsonschema.validate(m, json.load(open("/root/.vp/MANIFEST.schema.json")))
print("MANIFEST ok:", [c["property_id"] for c in checks])
