#!/venv/bin/python
"""Large determinism proof: for each world, execute the same run indices in several fresh interpreters
under different PYTHONHASHSEED values (and VERIF_SEED values) and diff the event-log digests.
usage: selftest/determinism.py [--props C19,C08] [--runs 400] [--procs 8] [--seeds 0,1]"""
import argparse, json, os, subprocess, sys
V = os.path.dirname(os.path.dirname(os.path.abspath(__file__)))
ap = argparse.ArgumentParser()
ap.add_argument("--props", default="C08,C11,C16,C18,C19")
ap.add_argument("--runs", type=int, default=400)
ap.add_argument("--procs", type=int, default=8)
ap.add_argument("--seeds", default="0,1")
a = ap.parse_args()
bad = 0
for prop in a.props.split(","):
    for vs in a.seeds.split(","):
        per = max(1, a.runs // a.procs)
        jobs = []
        for rep, hs in enumerate(("0", "12345", "987654321")):
            for k in range(a.procs):
                idx = list(range(k * per, (k + 1) * per))
                if rep == 2:
                    idx = idx[::-1]  # other order inside the process
                env = dict(os.environ, PYTHONHASHSEED=hs, VERIF_SEED=vs)
                jobs.append((rep, k, subprocess.Popen([os.path.join(V, "check"), prop, "--digests", ",".join(map(str, idx))], env=env, stdout=subprocess.PIPE, stderr=subprocess.PIPE, text=True)))
        res = {}
        for rep, k, p in jobs:
            out, err = p.communicate()
            try:
                d = json.loads(out.strip().splitlines()[-1])
            except Exception:
                print("ERR", prop, vs, rep, k, err[-300:]); bad += 1; continue
            for i, dg in d.items():
                res.setdefault(int(i), {})[rep] = dg
        mism = [i for i, r in res.items() if len(set(r.values())) != 1 or len(r) != 3]
        print(f"{prop} VERIF_SEED={vs}: {len(res)} runs x 3 executions (PYTHONHASHSEED 0 / 12345 / 987654321, fresh interpreters, {a.procs} processes each, reversed order in the third): {len(mism)} mismatches {mism[:5]}")
        bad += len(mism)
sys.exit(1 if bad else 0)
