#!/venv/bin/python
"""Verify a sub-agent's breaking change myself and keep it under /verif/seeded/<id>/.
usage: selftest/import_seeded.py <src dir with patch.diff demo.py notes.txt> <property> <id>
Verification (in a scratch copy of /repo under /dev/shm, removed afterwards):
  demo passes on the clean copy; patch applies; pinned suite passes with the patch; demo fails with the patch."""
import json, os, shutil, subprocess, sys
HERE = os.path.dirname(os.path.abspath(__file__))
sys.path.insert(0, HERE)
from mutants import scratch_copy, run_suite

src, prop, sid = sys.argv[1], sys.argv[2], sys.argv[3]
d = scratch_copy()
ran = []
try:
    def demo():
        # demos import OpenPinch from the current directory and check the path prefix of their own worktree; patch that prefix
        text = open(os.path.join(src, "demo.py")).read()
        for wt in ("/tmp/wt_c08", "/tmp/wt_c11", "/tmp/wt_c16", "/tmp/wt_c18", "/tmp/wt_c19"):
            text = text.replace(wt, d)
        f = os.path.join(d, "_demo.py")
        open(f, "w").write(text)
        p = subprocess.run(["/venv/bin/python", f], cwd=d, capture_output=True, text=True, timeout=900)
        return p.returncode, (p.stdout + p.stderr)[-400:]
    rc0, out0 = demo()
    ran.append(f"demo on clean copy: exit {rc0}")
    p = subprocess.run(["patch", "-p1", "-d", d, "-i", os.path.join(os.path.abspath(src), "patch.diff")], capture_output=True, text=True)
    ran.append(f"patch -p1: exit {p.returncode}")
    if p.returncode:
        print("PATCH FAILED", p.stdout, p.stderr); sys.exit(1)
    ok, line = run_suite(d)
    ran.append(f"pinned suite with patch: {line}")
    rc1, out1 = demo()
    ran.append(f"demo with patch: exit {rc1}")
    print("\n".join(ran))
    if rc0 != 0 or not ok or rc1 == 0:
        print("NOT CONFIRMED", out0 if rc0 else "", out1 if rc1 == 0 else "")
        sys.exit(1)
    dst = os.path.join(os.path.dirname(HERE), "seeded", sid)
    os.makedirs(dst, exist_ok=True)
    for f in ("patch.diff", "demo.py"):
        shutil.copy(os.path.join(src, f), os.path.join(dst, f))
    notes = open(os.path.join(src, "notes.txt")).read() if os.path.exists(os.path.join(src, "notes.txt")) else ""
    json.dump(dict(property=prop, needs=notes.strip(), what_i_ran=ran, demo_failure_excerpt=out1.strip()[-300:], origin="sub-agent given only the property text and a scratch worktree"), open(os.path.join(dst, "meta.json"), "w"), indent=1)
    print("kept as", dst)
finally:
    shutil.rmtree(d, ignore_errors=True)
