#!/venv/bin/python
"""Sensitivity self-test: apply each catalogued mutant to a scratch copy of /repo
(under /dev/shm, removed afterwards), optionally show that it passes the pinned
suite, then run the quick check against the scratch copy and expect exit 1.

usage: selftest/mutants.py [--suite] [--prop C19] [--only name] [--runs N] [--budget S]
The catalogue is selftest/mutant_catalogue.py (search/replace pairs) plus every
/verif/seeded/<id>/patch.diff.
"""
import argparse
import json
import os
import shutil
import subprocess
import sys
import tempfile
import time

HERE = os.path.dirname(os.path.abspath(__file__))
VERIF = os.path.dirname(HERE)
sys.path.insert(0, HERE)


def scratch_copy():
    base = "/dev/shm" if os.path.isdir("/dev/shm") else tempfile.gettempdir()
    d = tempfile.mkdtemp(prefix="op_mut_", dir=base)
    subprocess.run(["git", "-C", "/repo", "worktree", "prune"], check=False, capture_output=True)
    # plain copy of the working tree (tracked files only) - cheap, no git metadata
    p = subprocess.run("git -C /repo ls-files -z | (cd /repo && xargs -0 cp --parents -t %s)" % d, shell=True, capture_output=True, text=True)
    if p.returncode:
        raise SystemExit("copy failed: " + p.stderr)
    return d


def apply_sr(d, edits):
    for path, old, new in edits:
        fp = os.path.join(d, path)
        s = open(fp).read()
        if s.count(old) != 1:
            raise ValueError(f"{path}: search text occurs {s.count(old)} times")
        open(fp, "w").write(s.replace(old, new))


def run_suite(d):
    p = subprocess.run([os.path.join(HERE, "suite.sh"), d], capture_output=True, text=True)
    return p.returncode == 0, p.stdout.strip().splitlines()[-1] if p.stdout.strip() else p.stderr[-200:]


def run_check(d, prop, runs, budget, seed):
    env = dict(os.environ, VERIF_REPO=d, VERIF_SEED=str(seed), VERIF_REPLAY_DIR=os.path.join(d, "_replays"), VERIF_SHRINK_S=os.environ.get("VERIF_SHRINK_S", "25"))
    cmd = [os.path.join(VERIF, "check"), prop, "--tier", "quick", "--no-evidence"] + ([] if os.environ.get("VERIF_MUT_SELFTEST") else ["--no-selftest"])
    if runs:
        cmd += ["--runs", str(runs)]
    if budget:
        cmd += ["--budget", str(budget)]
    t = time.time()
    p = subprocess.run(cmd, env=env, capture_output=True, text=True)
    viol = [l for l in p.stdout.splitlines() if l.startswith("violation:")]
    return p.returncode, viol, time.time() - t, p


def main():
    ap = argparse.ArgumentParser()
    ap.add_argument("--suite", action="store_true")
    ap.add_argument("--prop")
    ap.add_argument("--only")
    ap.add_argument("--runs", type=int)
    ap.add_argument("--budget", type=float)
    ap.add_argument("--seed", type=int, default=0)
    ap.add_argument("--json")
    a = ap.parse_args()
    from mutant_catalogue import MUTANTS

    items = []
    for m in MUTANTS:
        items.append(dict(name=m["name"], prop=m["prop"], edits=m["edits"], expect=m.get("expect", "kill"), note=m.get("note", "")))
    sd = os.path.join(VERIF, "seeded")
    if os.path.isdir(sd):
        for n in sorted(os.listdir(sd)):
            meta = os.path.join(sd, n, "meta.json")
            if os.path.exists(meta):
                mj = json.load(open(meta))
                items.append(dict(name="seeded/" + n, prop=mj["property"], patch=os.path.join(sd, n, "patch.diff"), expect=mj.get("expect", "kill"), note=mj.get("needs", "")))
    out = []
    bad = 0
    for it in items:
        if a.prop and it["prop"] != a.prop:
            continue
        if a.only and a.only not in it["name"]:
            continue
        d = scratch_copy()
        try:
            if "edits" in it:
                apply_sr(d, it["edits"])
            else:
                p = subprocess.run(["git", "apply", "--unsafe-paths", "--directory", d, it["patch"]], capture_output=True, text=True, cwd="/")
                if p.returncode:
                    p = subprocess.run(["patch", "-p1", "-d", d, "-i", it["patch"]], capture_output=True, text=True)
                    if p.returncode:
                        raise ValueError("patch does not apply: " + p.stdout + p.stderr)
            suite = None
            if a.suite:
                suite = run_suite(d)
            rc, viol, dt, p = run_check(d, it["prop"], a.runs, a.budget, a.seed)
            killed = rc == 1
            ok = killed == (it["expect"] == "kill") and rc in (0, 1)
            bad += not ok
            print(f"{'OK ' if ok else 'BAD'} {it['prop']} {it['name']:<34} expect={it['expect']:<6} exit={rc} {dt:5.1f}s suite={suite} {viol[0][:150] if viol else ''}", flush=True)
            if rc not in (0, 1):
                print(p.stdout[-600:], p.stderr[-1200:])
            out.append(dict(name=it["name"], prop=it["prop"], expect=it["expect"], exit=rc, killed=killed, suite=suite, first=viol[0] if viol else None, wall_s=round(dt, 1)))
        except ValueError as e:
            bad += 1
            print(f"ERR {it['prop']} {it['name']}: {e}")
        finally:
            shutil.rmtree(d, ignore_errors=True)
    if a.json:
        json.dump(out, open(a.json, "w"), indent=1)
    return 1 if bad else 0


if __name__ == "__main__":
    sys.exit(main())
