"""C11 — analysis is a pure function of its input.

World: one long-lived node (process).  1-3 simulated callers, each owning problems,
a reusable dict and a reusable validated model per problem, and PinchProblem wrappers,
are interleaved at call granularity by the seeded schedule.  Faults: SimAbort raised
at the n-th library line of a call, natural failures (invalid problems), clock jumps,
timing switch on.  Oracle: the same call made in a pristine fork (served by a fork
server started before the node executes anything), compared byte for byte.
"""
from __future__ import annotations

import copy
import json
import os

try:  # the workbook producer's dependency, loaded once in the controller (workers and nodes are forks of it)
    import openpyxl  # noqa: F401
except ImportError:  # pragma: no cover
    pass
from sim import prng
from sim.engine import World
from sim.node import LineTracer, SimClock, drop_scratch, fork_call, make_scratch, run_plain
from worlds import problems

NAMES = ["Project", "Project", "Site", "P2", "Plant"]
FORMS = ["dict_shared", "dict_copy", "model_fresh", "model_shared", "dict_of_models"]
TIMING_EXCLUDE = ("OpenPinch.utils.decorators:_function_stats",)
FP_EXCLUDE_SUFFIX = ("__slotnames__",)


def formclass(form):
    return "model" if form.startswith("model") else "dict"


# ------------------------------------------------------------------------------------------- helpers
def _gen_paths(a, b, path=""):
    """Generalised paths (list indices -> []) at which two JSON-like values differ."""
    out = set()
    if type(a) is not type(b):
        out.add(path or "/")
    elif isinstance(a, dict):
        for k in set(a) | set(b):
            if k not in a or k not in b:
                out.add(f"{path}.{k}" if path else k)
            else:
                out |= _gen_paths(a[k], b[k], f"{path}.{k}" if path else str(k))
    elif isinstance(a, list):
        if len(a) != len(b):
            out.add(path + "[#]")
        for x, y in zip(a, b):
            out |= _gen_paths(x, y, path + "[]")
    elif a != b:
        out.add(path or "/")
    return out


def diff_class(node_text, oracle_text):
    try:
        a, b = json.loads(node_text), json.loads(oracle_text)
    except Exception:
        return "unparseable"
    ga, gb = a.get("graphs") or {}, b.get("graphs") or {}
    if set(ga) - set(gb):
        return "graphs:extra_keys"
    if set(gb) - set(ga):
        return "graphs:missing_keys"
    paths = sorted(_gen_paths(a, b))
    paths = [p if not p.startswith("graphs.") else "graphs.<set>" + p[p.index(".", 7):] if "." in p[7:] else p for p in paths]
    return paths[0] if paths else "text_only"


def zone_digest(zone, depth=0):
    """Digest of everything numeric hanging off an analysed Zone tree (problem tables of every target, recursively)."""
    import hashlib

    import numpy as np

    h = hashlib.blake2b(digest_size=10)
    if zone is None or depth > 12:
        return "none"
    for key in sorted(getattr(zone, "targets", {}) or {}):
        t = zone.targets[key]
        h.update(str(key).encode())
        for attr in ("pt", "pt_real"):
            tb = getattr(t, attr, None)
            data = getattr(tb, "data", None)
            if isinstance(data, np.ndarray):
                h.update(str(data.shape).encode())
                h.update(np.ascontiguousarray(np.nan_to_num(data.astype(float), nan=-9.87654321e300)).tobytes())
        for attr in ("hot_utility_target", "cold_utility_target", "heat_recovery_target", "utility_cost", "area"):
            h.update(repr(getattr(t, attr, None)).encode())
    for name in sorted(getattr(zone, "subzones", {}) or {}):
        h.update(name.encode())
        h.update(zone_digest(zone.subzones[name], depth + 1).encode())
    return h.hexdigest()


def snapshot(obj):
    if hasattr(obj, "model_dump"):
        return obj.model_dump()
    if isinstance(obj, dict):
        return {k: snapshot(v) for k, v in obj.items()}
    if isinstance(obj, list):
        return [snapshot(v) for v in obj]
    return copy.deepcopy(obj)


class OracleServer:
    """Pristine fork server: forked from the node before the node executes anything; forks a fresh
    grandchild per query, so every answer comes from a process that has only imported the library."""

    def __init__(self, handler):
        self.req_r, self.req_w = os.pipe()
        self.res_r, self.res_w = os.pipe()
        self.pid = os.fork()
        if self.pid == 0:
            code = 0
            try:
                os.close(self.req_w)
                os.close(self.res_r)
                with os.fdopen(self.req_r, "rb") as rq, os.fdopen(self.res_w, "wb") as rs:
                    for line in rq:
                        req = json.loads(line)
                        try:
                            ans = fork_call(lambda: handler(req), timeout=300)
                        except Exception as e:
                            ans = {"harness_error": str(e)}
                        rs.write(json.dumps(ans).encode() + b"\n")
                        rs.flush()
            except BaseException:
                code = 3
            finally:
                os._exit(code)
        os.close(self.req_r)
        os.close(self.res_w)
        self.w = os.fdopen(self.req_w, "wb")
        self.r = os.fdopen(self.res_r, "rb")

    def query(self, req):
        self.w.write(json.dumps(req).encode() + b"\n")
        self.w.flush()
        line = self.r.readline()
        if not line:
            raise RuntimeError("oracle server died")
        ans = json.loads(line)
        if "harness_error" in ans:
            raise RuntimeError("oracle: " + ans["harness_error"])
        return ans

    def close(self):
        try:
            self.w.close()
            self.r.close()
        finally:
            try:
                os.waitpid(self.pid, 0)
            except ChildProcessError:
                pass


def service_answer(problem, fclass, name, count_lines):
    """The reference call: fresh input object, fresh process."""
    from OpenPinch.lib.schema import TargetInput
    from OpenPinch.main import pinch_analysis_service

    def call():
        if fclass.startswith("file:"):
            # a problem file on the scratch disk, loaded and targeted through a new wrapper
            from OpenPinch.classes.pinch_problem import PinchProblem

            w = PinchProblem()
            w.load(fclass[5:])
            return w.target().model_dump_json()
        d = copy.deepcopy(problem)
        data = TargetInput.model_validate(d) if fclass == "model" else d
        return pinch_analysis_service(data, project_name=name).model_dump_json()

    if count_lines:
        tr = LineTracer(None)
        kind, val = tr.run(call)
        lines = tr.n
    else:
        kind, val = run_plain(call)
        lines = None
    if kind == "ok":
        return dict(kind="ok", json=val, lines=lines)
    return dict(kind="raise", type=type(val).__name__, msg=str(val)[:300], lines=lines)


# ------------------------------------------------------------------------------------------- world
class C11(World):
    pid = "C11"
    chunk = 1
    run_timeout = 150.0
    quick = dict(runs=420, budget_s=48)
    selftest_n = dict(quick=(10, 5), thorough=(120, 48))
    thorough = dict(runs=200000, budget_s=1500)
    components_real = [
        "OpenPinch.main.pinch_analysis_service and everything below it (validation, preparation, direct/indirect targeting, graphs, serialisation)",
        "OpenPinch.classes.pinch_problem.PinchProblem (load from model / JSON file / workbook / CSV bundle, target, export_to_Excel, run=True constructor)",
        "OpenPinch.utils.wkbook_to_json / csv_to_json (real readers on producer-written files)",
        "OpenPinch.utils.export (real workbook writer on a scratch directory)",
    ]
    components_stub = [
        "wall clock read by OpenPinch.utils.export (simulated clock object)",
        "abort fault: sys.settrace-based injector raising SimAbort at the n-th library line",
        "scratch disk: per-run directory under /dev/shm holding producer-written JSON files and exports",
    ]
    fault_kinds = ["abort", "injected_error:memory", "injected_error:os", "natural_failure", "clock_jump", "timing_on"]
    state_abstraction = "(sorted multiset of problem indices analysed so far, set of shared input objects already used, whether an abort has happened, timing switch, number of wrappers)"
    rule = (
        "each run = one generated history (3-25 operations) issued by 1-3 interleaved simulated callers in one process: "
        "service calls on corpus / perturbed / synthetic / invalid problems passed as shared dict, copied dict, fresh model or the "
        "same model object reused, under varying project names; PinchProblem wrappers loaded from a model (possibly another caller's) "
        "or a JSON file / workbook / CSV bundle (optionally loaded once, the dictionary handed out edited by the caller, and the untouched file loaded again by a second wrapper), targeted, exported; constructor with run=True; aborts at a generated fraction of the call's library lines; "
        "clock jumps.  distinct = distinct step list + problem set; non-trivial = >=2 analysis calls in the history."
    )
    assumptions = [
        "interleaving at call granularity (single-threaded library; no pre-emption inside a call)",
        "oracle = same call in a pristine fork of a just-imported interpreter; equivalence with genuinely fresh interpreters is cross-validated on a sample every run",
        "after an injected abort only module state is judged immediately; the aborted call's own result is not judged",
        "with the timing switch on, the timing statistics dictionary is excluded from the state fingerprint (its documented purpose)",
    ]

    # ---------------------------------------------------------------- generation
    def generate(self, seed, run):
        S = prng.Streams(seed)
        sw, ops, args, sched, pr = S("swarm"), S("ops"), S("args"), S("schedule"), S("problems")
        swarm = dict(
            clients=sw.choice([1, 2, 2, 3]),
            length=sw.choice([3, 5, 8, 12, 18, 25]),
            p_abort=sw.choice([0, 0, 0, 0.1, 0.25]),
            p_clock=sw.choice([0, 0.05, 0.15]),
            timing=sw.random() < 0.12,
            wrappers=sw.choice([0, 1, 1, 2]),
            n_problems=sw.choice([1, 2, 2, 3, 4]),
            w_forms=[sw.choice([0, 1, 2]) for _ in FORMS[:4]] + [sw.choice([0, 0, 1])],
            p_invalid=sw.choice([0, 0, 0.1, 0.2]),
            names=sw.choice([1, 2, len(NAMES)]),
            epoch=sw.choice([1_800_000_000.0, 1_835_000_000.0, 1_835_000_000.0, 4_110_000_000.0]),  # simulated "now": 2027, 2028 (a leap year), 2100
        )
        if not any(swarm["w_forms"]):
            swarm["w_forms"] = [1, 1, 1, 1, 0]
        corp = problems.corpus()
        small = [i for i, (_, p) in enumerate(corp) if len(p["streams"]) <= 30]
        probs = []
        for _ in range(swarm["n_problems"]):
            x = pr.random()
            if os.environ.get("C11_HP") and pr.random() < 0.5:
                # development knob: many heat-pump-targeting problems (slow calls that fail deep inside the pipeline)
                p = problems.generate(pr, small=True, max_streams=4)
                p["options"] = {pr.choice(["DO_PROCESS_HP_TARGETING", "DO_UTILITY_HP_TARGETING"]): True}
                probs.append(dict(src="invalid:hp_targeting", data=p))
                continue
            if x < swarm["p_invalid"]:
                kind = pr.choice(["no_streams", "utility_zone_tree", "area_unbalanced", "indirect_process"] + (["hp_targeting"] if pr.random() < (0.2 if self.tier == "thorough" else 0.02) else []))
                if kind == "no_streams":
                    p = dict(streams=[], utilities=[])
                elif kind == "indirect_process":
                    p = problems.generate(pr, small=True)
                    p["options"] = dict(DO_INDIRECT_PROCESS_TARGETING=True)
                elif kind == "hp_targeting":
                    # heat-pump targeting runs for seconds and then fails deep inside the pipeline: a natural failure with lots of state in flight
                    p = problems.generate(pr, small=True, max_streams=4)
                    p["options"] = {pr.choice(["DO_PROCESS_HP_TARGETING", "DO_UTILITY_HP_TARGETING"]): True}
                elif kind == "utility_zone_tree":
                    p = problems.generate(pr, small=True)
                    p["zone_tree"] = dict(name="U", type="Utility Zone", children=None)
                else:
                    p = problems.generate(pr, small=True)
                    p["options"] = dict(DO_AREA_TARGETING=True)
                src = "invalid:" + kind
            elif x < 0.45:
                i = pr.choice(small) if pr.random() < 0.9 else pr.randrange(len(corp))
                p = copy.deepcopy(corp[i][1])
                src = "corpus:" + corp[i][0]
            elif x < 0.6:
                i = pr.choice(small)
                p = problems.plain_numbers(corp[i][1])
                f = pr.choice([0.5, 2.0, 1.25])
                for s in p["streams"]:
                    s["heat_flow"] = round(s["heat_flow"] * f, 6)
                    s.pop("loc", None)
                    s.pop("index", None)
                opts = problems.gen_options(pr)
                p["options"] = opts or {}
                src = "perturbed:" + corp[i][0]
            else:
                p = problems.generate(pr)
                opts = problems.gen_options(pr)
                if opts:
                    p["options"] = opts
                src = "synthetic"
            probs.append(dict(src=src, data=p))
        owned = {c: sorted(set(pr.sample(range(len(probs)), pr.randint(1, len(probs))))) for c in range(swarm["clients"])}
        names = NAMES[: swarm["names"]]
        steps = []
        n_wr = 0
        hp_calls = 0
        for i in range(swarm["length"]):
            c = sched.randrange(swarm["clients"])
            cand = [("svc", 6.0), ("clock", 10 * swarm["p_clock"]), ("mutate_own_dict", 0.35), ("mutate_result", 0.3), ("reextract", 0.4)]
            if swarm["wrappers"]:
                cand += [("wload", 1.2 * swarm["wrappers"]), ("wrun", 0.3 * swarm["wrappers"])]
                if n_wr:
                    cand += [("wtarget", 1.5 * swarm["wrappers"]), ("wexport", 0.7 * swarm["wrappers"]), ("wpoke", 0.5 * swarm["wrappers"])]
            op = ops.choices([k for k, _ in cand], [w for _, w in cand])[0]
            p = args.choice(owned[c])
            is_hp = probs[p]["src"] == "invalid:hp_targeting"
            if is_hp:
                hp_calls += 1
                if hp_calls > 3:
                    # heat-pump-targeting calls run for seconds: at most three of them per history (bounded run time)
                    others = [q for q in owned[c] if probs[q]["src"] != "invalid:hp_targeting"]
                    if others:
                        p, is_hp = args.choice(others), False
                    else:
                        op = "clock"
            abort = abort_exc = None
            if args.random() < swarm["p_abort"] and not is_hp:
                # half uniform over the call; the rest near its ends (set-up / restore-at-the-end code is where an abort leaves state behind)
                x = args.random()
                abort = round(args.random() if x < 0.5 else (0.9 + 0.1 * args.random() if x < 0.8 else 0.1 * args.random()), 4)
                # what is raised there: a BaseException (Ctrl-C-like, bypasses `except Exception`) or an ordinary exception
                # (failed allocation / system call: goes through the library's own handlers and clean-up code)
                abort_exc = args.choice([None, None, "memory", "os"])
            if op == "svc":
                st = dict(op="svc", p=p, form=args.choices(FORMS, swarm["w_forms"])[0], name=args.choice(names), abort=abort, full=args.random() < 0.15)
            elif op == "clock":
                st = dict(op="clock", dt=args.choice([0, 0, 1, 59, 3600, 86400, -1, -3600, 366 * 86400, 400 * 86400, -370 * 86400]))  # incl. into another (leap) year
            elif op == "mutate_result":
                # the caller edits a RESULT object it was handed (its own property now); later calls must not see that
                st = dict(op="mutate_result", which=args.randrange(64), what=args.choice(["clear_targets", "scale_qh", "drop_graphs", "rename", "deep", "deep"]))
            elif op == "reextract":
                # the lower-level public hook extract_results() applied again to an analysed zone tree handed out earlier
                st = dict(op="reextract", which=args.randrange(64))
            elif op == "mutate_own_dict":
                # the caller edits ITS OWN reusable dictionary after a call returned (then puts it back): results already
                # handed out must not follow, i.e. they may not alias the caller's lists / dicts
                st = dict(op="mutate_own_dict", p=p, what=args.choice(["scale_duty", "rename_stream", "drop_stream", "clear_options"]))
            elif op == "wload":
                via = args.choice(["model_shared", "model_fresh", "json", "json", "from_json_shared", "xlsx", "csv_dir"])
                st = dict(op="wload", p=p, via=via, owner=args.randrange(swarm["clients"]), stem=args.choice(["case", "run A", "Project", f"prob{p}"]))
                if via in ("xlsx", "csv_dir", "json") and args.random() < 0.4:
                    st["twin"] = True  # loaded once, the dictionary handed out is edited by the caller, then the untouched file is loaded by a second wrapper
                n_wr += 1
            elif op == "wrun":
                st = dict(op="wrun", p=p, stem=args.choice(["case", "auto", f"prob{p}"]), export=args.random() < 0.5)
            elif op == "wpoke":
                st = dict(op="wpoke", w=args.randrange(64))
            elif op == "wtarget":
                st = dict(op="wtarget", w=args.randrange(64), abort=abort)
            else:
                st = dict(op="wexport", w=args.randrange(64))
            if st.get("abort") is not None and abort_exc:
                st["abort_exc"] = abort_exc
            st["client"] = c
            steps.append(st)
        return dict(swarm=swarm, problems=probs, steps=steps)

    def nontrivial(self, trace):
        return sum(s["op"] in ("svc", "wtarget", "wrun", "wexport") for s in trace["steps"]) >= 2

    # ---------------------------------------------------------------- execution
    def execute(self, trace):
        import OpenPinch.lib.config as config
        from OpenPinch.classes.pinch_problem import PinchProblem
        from OpenPinch.lib.schema import TargetInput
        from OpenPinch.main import pinch_analysis_service

        from sim.fingerprint import diff as fp_diff
        from sim.fingerprint import fingerprint

        swarm = trace.get("swarm", {})
        probs = [p["data"] for p in trace["problems"]]
        any_abort = any(s.get("abort") is not None for s in trace["steps"])
        viol, log = [], []
        stats = dict(ops={}, pairs={}, probes={}, checks={}, faults={})
        states = set()
        seen_v = set()

        def probe(name, n=1):
            stats["probes"][name] = stats["probes"].get(name, 0) + n

        def tick(name):
            stats["checks"][name] = stats["checks"].get(name, 0) + 1

        def fault(name):
            stats["faults"][name] = stats["faults"].get(name, 0) + 1

        def V(check, site, step, detail):
            if (check, site) in seen_v:
                return
            seen_v.add((check, site))
            viol.append(dict(check=check, site=site, step=step, detail=detail))

        # ---- pristine oracle server first: the node has executed nothing yet
        oracle = OracleServer(lambda req: service_answer(probs[req["p"]], req["fc"], req["name"], req["count"]))
        answers: dict[tuple, dict] = {}

        def ask(p, fc, name, need_lines=False):
            k = (p, fc, name)
            a = answers.get(k)
            if a is None or (need_lines and a.get("lines") is None):
                a = answers[k] = oracle.query(dict(p=p, fc=fc, name=name, count=bool(need_lines or any_abort)))
            return a

        scratch = make_scratch("c11")
        clock = SimClock(float(swarm.get("epoch") or 1_800_000_000.0))
        clock.install()
        exclude = ()
        if swarm.get("timing"):
            config.ACTIVATE_TIMING = True
            exclude = TIMING_EXCLUDE
            fault("timing_on")

        no_fp = bool(os.environ.get("VERIF_C11_NO_FP"))  # self-test knob: judge behaviour only, without the state fingerprint

        def fp():
            if no_fp:
                return {}
            f = fingerprint(exclude_paths=exclude)
            return {k: v for k, v in f.items() if not k.endswith(FP_EXCLUDE_SUFFIX)}

        def edit_loaded_dict(w_):
            """The caller edits, in place, the dictionary a load handed out (its own business): no later load may see the edit."""
            d_ = w_.problem_data
            if isinstance(d_, dict) and isinstance(d_.get("streams"), list) and d_["streams"]:
                s0 = d_["streams"][0]
                if isinstance(s0, dict):
                    hf = s0.get("heat_flow")
                    if isinstance(hf, dict) and isinstance(hf.get("value"), (int, float)):
                        hf["value"] = hf["value"] * 3 + 1000.0
                    elif isinstance(hf, (int, float)):
                        s0["heat_flow"] = hf * 3 + 1000.0
                    s0["name"] = "edited by the caller"
                if len(d_["streams"]) > 1:
                    d_["streams"].pop()
                probe("caller_edited_the_loaded_dictionary")

        shared_dict: dict[tuple, dict] = {}
        shared_model: dict[tuple, object] = {}
        shared_hybrid: dict[tuple, object] = {}
        full_zones: list = []  # [zone tree, digest] handed out by is_return_full_results=True calls
        used_shared = set()
        wrappers: list[dict] = []  # dict(obj, p, fc, name, src, snap)
        held: list[tuple] = []  # (result object, text)
        ran: list[int] = []
        aborted_any = False
        last_kind = "start"
        prev_op = None

        def judge_call(step, st, key, kind, val, site_form, fp_before, data, snap, tr=None):
            """Common checks after one analysis call."""
            nonlocal aborted_any, last_kind
            p, fc, name = key
            ans = ask(p, fc, name)
            fp_after = fp()
            d = fp_diff(fp_before, fp_after)
            if kind == "abort":
                aborted_any = True
                fault("abort")
                if tr is not None and tr.where:
                    probe("abort_in:" + tr.where[0].split("/")[-1])
                if tr is not None and tr.exc:
                    fault("injected_error:" + tr.exc)
                tick("module_state_after_abort")
                if d:
                    V("module_state_after_abort", d[0], step, f"module state differs after an aborted call: {d[:3]}")
                last_kind = "abort"
                return "aborted"
            tick("module_state")
            if d:
                V("module_state", d[0], step, f"module state differs after the call: {d[:3]}")
            if data is not None:
                tick("input_unchanged")
                now = snapshot(data)
                if now != snap:
                    paths = sorted(_gen_paths(snap, now))
                    V("input_unchanged", ",".join(paths[:4]), step, f"caller's {site_form} input changed at {paths[:6]}")
            tick("exc_eq")
            if kind == "raise":
                fault("natural_failure")
                out = "raise:" + type(val).__name__
                if ans["kind"] != "raise" or ans["type"] != type(val).__name__:
                    V("exc_eq", f"oracle_{ans['kind']}->node_raise|{site_form}|after_{last_kind}", step, f"node raised {type(val).__name__}: {str(val)[:120]}; pristine process: {ans['kind']} {ans.get('type', '')}")
                last_kind = "failure"
                return out
            if not hasattr(val, "model_dump_json"):
                # the call came back without raising and without a result object (None, a bare dict, ...)
                tick("fresh_eq")
                if ans["kind"] == "ok":
                    V("fresh_eq", f"not_a_result:{type(val).__name__}|{site_form}|after_{last_kind}", step, f"the call returned {type(val).__name__} where the same call in a pristine process returns a result")
                else:
                    V("exc_eq", f"oracle_raise->node_ok|{site_form}|after_{last_kind}", step, f"node returned {type(val).__name__}; pristine process raised {ans['type']}: {ans['msg'][:120]}")
                last_kind = "ok"
                return "ok:" + type(val).__name__
            text = val.model_dump_json()
            if ans["kind"] != "ok":
                V("exc_eq", f"oracle_raise->node_ok|{site_form}|after_{last_kind}", step, f"node returned a result; pristine process raised {ans['type']}: {ans['msg'][:120]}")
            else:
                tick("fresh_eq")
                if text != ans["json"]:
                    V("fresh_eq", f"{diff_class(text, ans['json'])}|{site_form}|after_{last_kind}", step, f"result differs from the same call in a pristine process ({len(text)} vs {len(ans['json'])} bytes)")
            held.append((val, text))
            if len(held) > 8:
                held.pop(0)
            ran.append(p)
            last_kind = "ok"
            return "ok:" + prng.digest(text)

        def check_held(step, skip_last=True):
            for fz in full_zones[-6:]:
                tick("earlier_results")
                if zone_digest(fz[0]) != fz[1]:
                    V("earlier_results", "returned_zone_tree_changed", step, "an analysed zone tree handed out by is_return_full_results=True changed after it was returned")
                    fz[1] = zone_digest(fz[0])
            for rec in wrappers:
                zd = rec.get("zone_digest")
                if zd is not None:
                    tick("earlier_results")
                    if zone_digest(rec["obj"].master_zone) != zd:
                        V("earlier_results", "wrapper_master_zone_changed", step, "the analysed zone tree (problem tables) held by a wrapper changed after it was returned")
                        rec["zone_digest"] = zone_digest(rec["obj"].master_zone)
            tick("earlier_results")
            for k, (obj, text) in enumerate(held[:-1] if skip_last else held):
                try:
                    now = obj.model_dump_json()
                except Exception as e:
                    now = f"<{type(e).__name__}>"
                if now != text:
                    V("earlier_results", "held_result_changed", step, f"a result returned {len(held) - k - 1} calls ago no longer serialises to the same text")
                    break

        try:
            for step, st in enumerate(trace["steps"]):
                op, c = st["op"], st.get("client", 0)
                stats["ops"][op] = stats["ops"].get(op, 0) + 1
                if prev_op:
                    stats["pairs"][prev_op + ">" + op] = stats["pairs"].get(prev_op + ">" + op, 0) + 1
                prev_op = op
                outcome = None
                if op == "hashseed":
                    import subprocess
                    import sys
                    import tempfile

                    q = dict(problem=probs[st["p"]], fc=st["fc"], name=st["name"])
                    tf = tempfile.NamedTemporaryFile("w", suffix=".json", delete=False)
                    json.dump(q, tf)
                    tf.close()
                    script = os.path.join(os.path.dirname(os.path.dirname(os.path.abspath(__file__))), "sim", "fresh_oracle.py")
                    got = set()
                    for hs in ("1", "77", "5", "123456", "31337", "2", "999"):
                        pr_ = subprocess.run([sys.executable, script, tf.name], env=dict(os.environ, PYTHONHASHSEED=hs), capture_output=True, text=True, timeout=600)
                        got.add(pr_.stdout.strip().splitlines()[-1] if pr_.stdout.strip() else "error")
                    os.unlink(tf.name)
                    tick("hash_seed")
                    if len(got) > 1:
                        V("hash_seed", "fresh_processes_disagree", step, f"the same call in fresh interpreters under different PYTHONHASHSEED values gives {len(got)} different results")
                    outcome = "ok"
                elif op == "clock":
                    clock.advance(st["dt"])
                    if st["dt"] < 0 or st["dt"] >= 3600:
                        fault("clock_jump")
                    outcome = "ok"
                elif op == "reextract":
                    # candidates: zone trees returned by is_return_full_results=True, and the analysed trees of wrappers whose
                    # result the caller has not edited
                    cands = [(fz[0], fz[2], fz) for fz in full_zones] + [(r_["obj"].master_zone, r_["res_text"], None) for r_ in wrappers if r_.get("res_text") and not r_.get("edited") and r_["obj"].master_zone is not None]
                    if not cands:
                        outcome = "skip"
                    else:
                        zone_, text0, fz_ = cands[st["which"] % len(cands)]
                        from OpenPinch.lib.schema import TargetOutput
                        from OpenPinch.main import extract_results
                        fpb = fp()
                        kind, val = run_plain(lambda: TargetOutput.model_validate(extract_results(zone_)).model_dump_json())
                        d = fp_diff(fpb, fp())
                        tick("module_state")
                        if d:
                            V("module_state", d[0], step, f"module state differs after extract_results on an earlier zone tree: {d[:3]}")
                        tick("earlier_results")
                        if kind != "ok":
                            V("earlier_results", "reextract_raises", step, f"extract_results on a zone tree returned earlier raised {type(val).__name__}: {str(val)[:120]}")
                        elif val != text0:
                            V("earlier_results", f"reextract|{diff_class(val, text0)}", step, "extract_results on a zone tree returned earlier no longer gives the result that was returned with it")
                        probe("reextract")
                        outcome = "ok:" + prng.digest(val if kind == "ok" else "raise")
                        check_held(step, skip_last=False)
                elif op == "mutate_result":
                    if not held:
                        outcome = "skip"
                    else:
                        k = st["which"] % len(held)
                        obj, _text = held[k]
                        fpb = fp()
                        try:
                            if st["what"] == "deep":
                                # the caller scribbles over every nested sub-object of ITS result, in place
                                for t_ in obj.targets:
                                    if t_.temp_pinch is not None:
                                        t_.temp_pinch.cold_temp = 999.0
                                        t_.temp_pinch.hot_temp = -999.0
                                    for u_ in list(t_.hot_utilities) + list(t_.cold_utilities):
                                        u_.name = "edited"
                                        u_.heat_flow = -1.0
                                    t_.hot_utilities.append(t_.hot_utilities[0]) if t_.hot_utilities else None
                                for gs_ in (obj.graphs or {}).values():
                                    gs_.name = "edited"
                                    for g_ in gs_.graphs:
                                        for sg_ in g_.segments:
                                            for dp_ in sg_.data_points:
                                                dp_.x = 0.0
                                            sg_.data_points.clear()
                            elif st["what"] == "clear_targets":
                                obj.targets.clear()
                            elif st["what"] == "scale_qh" and obj.targets:
                                obj.targets[0].Qh = 123456.0
                                if obj.targets[0].hot_utilities:
                                    obj.targets[0].hot_utilities[0].heat_flow = -1.0
                            elif st["what"] == "drop_graphs" and obj.graphs:
                                key0 = sorted(obj.graphs)[0]
                                obj.graphs[key0].graphs.clear()
                                obj.graphs.pop(sorted(obj.graphs)[-1], None)
                            else:
                                obj.name = "edited by caller"
                            probe("caller_edited_a_result")
                            new_text = obj.model_dump_json()
                        except Exception as e:
                            new_text = None
                            log.append(("mutate_result_exc", type(e).__name__))
                        d_ = fp_diff(fpb, fp())
                        tick("module_state")
                        if d_:
                            V("module_state", "caller_edit_of_result_reaches:" + d_[0], step, f"editing a returned result object changed library state {d_[:3]}: the result aliases a long-lived internal")
                        # every OTHER held result must be untouched; the edited one is re-baselined
                        tick("earlier_results")
                        for j, (o2, t2) in enumerate(held):
                            if j == k or o2 is obj:
                                continue
                            try:
                                now = o2.model_dump_json()
                            except Exception as e:
                                now = f"<{type(e).__name__}>"
                            if now != t2:
                                V("earlier_results", "results_alias_each_other", step, f"editing one result object changed another result handed out earlier ({st['what']})")
                                break
                        if new_text is not None:
                            held[:] = [(o2, (new_text if o2 is obj else t2)) for (o2, t2) in held]
                        for rec in wrappers:
                            if rec["obj"].results is obj:
                                rec["edited"] = True
                        outcome = "ok"
                elif op == "mutate_own_dict":
                    p = st["p"] % len(probs)
                    d = shared_dict.get((c, p))
                    if d is None or not d.get("streams"):
                        outcome = "skip"
                    else:
                        saved = copy.deepcopy(d)
                        s0 = d["streams"][0]
                        if st["what"] == "scale_duty":
                            if isinstance(s0["heat_flow"], dict):
                                s0["heat_flow"]["value"] = s0["heat_flow"]["value"] * 3.0
                            else:
                                s0["heat_flow"] = s0["heat_flow"] * 3.0
                        elif st["what"] == "rename_stream":
                            s0["name"] = s0["name"] + "_edited"
                            s0["zone"] = "Edited zone"
                        elif st["what"] == "drop_stream":
                            d["streams"].pop()
                        else:
                            d["options"] = {"DO_VERTICAL_GCC": True}
                        probe("caller_edited_own_dict")
                        tick("earlier_results")
                        for k, (obj, text) in enumerate(held):
                            try:
                                now = obj.model_dump_json()
                            except Exception as e:
                                now = f"<{type(e).__name__}>"
                            if now != text:
                                V("earlier_results", "aliases_callers_dict", step, f"a result handed out earlier changed when the caller edited its own input dictionary ({st['what']})")
                                break
                        d.clear()
                        d.update(saved)
                        outcome = "ok"
                elif op == "svc":
                    p, form, name = st["p"] % len(probs), st["form"], st["name"]
                    fc = formclass(form)
                    if form == "dict_shared":
                        data = shared_dict.setdefault((c, p), copy.deepcopy(probs[p]))
                    elif form == "dict_copy":
                        data = copy.deepcopy(probs[p])
                    elif form == "dict_of_models":
                        # a dictionary whose stream / utility lists already hold validated schema objects, kept and re-used by the caller
                        if (c, p) not in shared_hybrid:
                            try:
                                m0 = TargetInput.model_validate(copy.deepcopy(probs[p]))
                                shared_hybrid[(c, p)] = dict(streams=list(m0.streams), utilities=list(m0.utilities), options=copy.deepcopy(m0.options), zone_tree=m0.zone_tree)
                            except Exception:
                                shared_hybrid[(c, p)] = None
                        data = shared_hybrid[(c, p)]
                        fc = "model"
                        if data is None:
                            data, fc = copy.deepcopy(probs[p]), "dict"
                        elif ("hybrid", c, p) in used_shared:
                            probe("shared_object_reused")
                        used_shared.add(("hybrid", c, p))
                    elif form == "model_fresh":
                        try:
                            data = TargetInput.model_validate(copy.deepcopy(probs[p]))
                        except Exception:
                            data, fc = copy.deepcopy(probs[p]), "dict"
                    else:
                        if (c, p) not in shared_model:
                            try:
                                shared_model[(c, p)] = TargetInput.model_validate(copy.deepcopy(probs[p]))
                            except Exception:
                                shared_model[(c, p)] = None
                        data = shared_model[(c, p)]
                        if data is None:
                            data, fc = copy.deepcopy(probs[p]), "dict"
                    if form.endswith("shared"):
                        if (form, c, p) in used_shared:
                            probe("shared_object_reused")
                        used_shared.add((form, c, p))
                    if any(k[0] == p and k[2] != name for k in answers):
                        probe("same_problem_two_names")
                    key = (p, fc, name)
                    snap = snapshot(data)
                    fpb = fp()
                    if st.get("full"):
                        # the documented second return shape: (TargetOutput, analysed zone tree)
                        def call():
                            out_, zone_ = pinch_analysis_service(data, project_name=name, is_return_full_results=True)
                            full_zones.append([zone_, zone_digest(zone_), out_.model_dump_json()])
                            return out_
                        probe("full_results_requested")
                    else:
                        call = lambda: pinch_analysis_service(data, project_name=name)
                    tr = None
                    if st.get("abort") is not None:
                        a = ask(p, fc, name, need_lines=True)
                        tr = LineTracer(max(1, int(st["abort"] * (a["lines"] or 1))), st.get("abort_exc"))
                        kind, val = tr.run(call)
                        if tr.fired and kind != "abort":
                            probe("abort_swallowed")
                            kind = "abort"
                    else:
                        kind, val = run_plain(call)
                    outcome = judge_call(step, st, key, kind, val, form, fpb, data, snap, tr)
                    check_held(step)
                elif op == "wload":
                    p = st["p"] % len(probs)
                    via = st["via"]
                    w = PinchProblem()
                    rec = dict(obj=w, p=p)
                    try:
                        if via == "json":
                            os.makedirs(os.path.join(scratch, f"in{step}"), exist_ok=True)
                            path = os.path.join(scratch, f"in{step}", f"{st['stem']}.json")
                            with open(path, "w") as f:
                                json.dump(probs[p], f)
                            w.load(path)
                            if st.get("twin"):
                                edit_loaded_dict(w)
                                w = PinchProblem()
                                w.load(path)
                            rec.update(obj=w, fc="dict", name=st["stem"], src=path, data=None, snap=None, filebytes=open(path, "rb").read())
                        elif via in ("xlsx", "csv_dir"):
                            # the other file readers (workbook, CSV bundle): the reference is the very same load + target on the very
                            # same file in a pristine process, so whatever the producer wrote, the comparison is like for like
                            from worlds import c16 as _c16

                            dd = os.path.join(scratch, f"in{step}")
                            os.makedirs(dd, exist_ok=True)
                            path = os.path.join(dd, st["stem"] + (".xlsx" if via == "xlsx" else ""))
                            if via == "xlsx":
                                _c16.write_xlsx(path, probs[p])
                            else:
                                _c16.write_csv(path, probs[p])
                            probe("problem_file_written:" + via)
                            w.load(path)
                            if st.get("twin"):
                                edit_loaded_dict(w)
                                w = PinchProblem()
                                w.load(path)
                            rec.update(obj=w, fc="file:" + path, name=st["stem"], src=path, data=None, snap=None, filebytes=(open(path, "rb").read() if via == "xlsx" else None))
                            probe("wrapper_loaded_from:" + via)
                        elif via == "from_json_shared":
                            # PinchProblem.from_json(dict) with the caller's own reusable dictionary
                            dsh = shared_dict.setdefault((c, p), copy.deepcopy(probs[p]))
                            w = PinchProblem.from_json(dsh)
                            rec.update(obj=w, fc="dict", name="Untitled", src="from_json", data=dsh, snap=None)
                            used_shared.add(("dict_shared", c, p))
                        else:
                            if via == "model_shared":
                                o = st["owner"]
                                if (o, p) not in shared_model:
                                    shared_model[(o, p)] = TargetInput.model_validate(copy.deepcopy(probs[p]))
                                m = shared_model[(o, p)]
                                if m is None:
                                    raise ValueError("invalid model")
                                if o != c:
                                    probe("wrapper_on_other_callers_model")
                                used_shared.add(("model_shared", o, p))
                            else:
                                m = TargetInput.model_validate(copy.deepcopy(probs[p]))
                            w.load(m)
                            rec.update(fc="model", name="Untitled", src="model", data=m, snap=None)
                        wrappers.append(rec)
                        outcome = "ok"
                    except Exception as e:
                        outcome = "raise:" + type(e).__name__
                elif op == "wpoke":
                    if not wrappers:
                        outcome = "skip"
                    else:
                        rec = wrappers[st["w"] % len(wrappers)]
                        w = rec["obj"]
                        fpb = fp()
                        snap_ = snapshot(rec["data"]) if rec.get("data") is not None else None
                        try:  # the read-only surface of the wrapper
                            repr(w)
                            w.problem_data
                            w.problem_filepath
                            w.results
                            w.master_zone
                            w.to_problem_json()
                            outcome = "ok"
                        except Exception as e:
                            outcome = "raise:" + type(e).__name__
                        d = fp_diff(fpb, fp())
                        tick("module_state")
                        if d:
                            V("module_state", d[0], step, f"module state differs after reading the wrapper's properties: {d[:3]}")
                        if snap_ is not None:
                            tick("input_unchanged")
                            now_ = snapshot(rec["data"])
                            if now_ != snap_:
                                paths = sorted(_gen_paths(snap_, now_))
                                V("input_unchanged", "wrapper_accessors:" + ",".join(paths[:3]), step, f"reading the wrapper's properties / to_problem_json() changed the caller's input at {paths[:5]}")
                        check_held(step, skip_last=False)
                        probe("wrapper_read_only_surface")
                elif op in ("wtarget", "wexport"):
                    if not wrappers:
                        outcome = "skip"
                    else:
                        rec = wrappers[st["w"] % len(wrappers)]
                        w = rec["obj"]
                        key = (rec["p"], rec["fc"], rec["name"])
                        data = rec["data"]
                        snap = snapshot(data) if data is not None else None
                        fpb = fp()
                        had = w.results is not None
                        if op == "wtarget":
                            tr = None
                            if st.get("abort") is not None and not had:
                                a = ask(*key, need_lines=True)
                                tr = LineTracer(max(1, int(st["abort"] * (a["lines"] or 1))), st.get("abort_exc"))
                                kind, val = tr.run(w.target)
                                if tr.fired and kind != "abort":
                                    # swallowed inside the library: the call went on along some other path and the wrapper may
                                    # now cache a result of that path - its own later answers are not judged (like an edited one)
                                    probe("abort_swallowed")
                                    kind = "abort"
                                    rec["edited"] = True
                            else:
                                kind, val = run_plain(w.target)
                            if had and kind == "ok":
                                probe("wrapper_cached_target")
                            if had and kind == "ok" and rec.get("edited"):
                                # the caller edited the cached object itself: the wrapper hands the same (edited) object back, nothing to judge
                                outcome = "ok:cached_edited"
                                log.append([c, op, outcome])
                                continue
                            outcome = judge_call(step, st, key, kind, val, "wrapper_" + rec["fc"].split(":")[0], fpb, data, snap, tr)
                            if had and kind == "ok" and held and len(held) >= 2 and held[-1][0] is held[-2][0]:
                                held.pop()
                            if kind == "ok" and rec.get("zone_digest") is None and w.master_zone is not None:
                                rec["zone_digest"] = zone_digest(w.master_zone)
                                rec["res_text"] = val.model_dump_json() if hasattr(val, "model_dump_json") else None
                            check_held(step)
                        else:
                            out_dir = os.path.join(scratch, f"out{st['w'] % len(wrappers)}")
                            os.makedirs(out_dir, exist_ok=True)
                            before_files = set(os.listdir(out_dir))
                            kind, val = run_plain(lambda: w.export_to_Excel(out_dir))
                            fpa = fp()
                            d = fp_diff(fpb, fpa)
                            tick("module_state")
                            if d:
                                V("module_state", d[0], step, f"module state differs after export: {d[:3]}")
                            if kind == "ok":
                                new = set(os.listdir(out_dir)) - before_files
                                probe("export_ok")
                                if not new:
                                    probe("export_overwrote_same_second")
                                outcome = "ok:" + os.path.basename(str(val))
                                if w.results is not None and not had:
                                    # export ran the analysis itself: judge that result like a target() call
                                    a = ask(*key)
                                    tick("fresh_eq")
                                    if a["kind"] == "ok":
                                        text = w.results.model_dump_json()
                                        if text != a["json"]:
                                            V("fresh_eq", f"{diff_class(text, a['json'])}|export_wrapper_{rec['fc'].split(':')[0]}|after_{last_kind}", step, "result computed during export differs from a pristine process")
                                        held.append((w.results, text))
                            else:
                                outcome = "raise:" + type(val).__name__
                                probe("export_raised:" + type(val).__name__)
                            if data is not None:
                                tick("input_unchanged")
                                now = snapshot(data)
                                if now != snap:
                                    paths = sorted(_gen_paths(snap, now))
                                    V("input_unchanged", ",".join(paths[:4]), step, f"wrapper's model changed during export at {paths[:6]}")
                            check_held(step, skip_last=False)
                            if rec.get("zone_digest") is None and w.master_zone is not None:
                                rec["zone_digest"] = zone_digest(w.master_zone)
                                if w.results is not None:
                                    rec["res_text"] = w.results.model_dump_json()
                        if rec.get("filebytes") is not None:
                            tick("input_unchanged")
                            if open(rec["src"], "rb").read() != rec["filebytes"]:
                                V("input_unchanged", "json_file_bytes", step, "the JSON problem file was rewritten")
                elif op == "wrun":
                    p = st["p"] % len(probs)
                    path = os.path.join(scratch, f"{st['stem']}_{step}.json")
                    with open(path, "w") as f:
                        json.dump(probs[p], f)
                    name = f"{st['stem']}_{step}"
                    out_dir = os.path.join(scratch, f"run{step}") if st["export"] else None
                    if out_dir:
                        os.makedirs(out_dir, exist_ok=True)
                    fpb = fp()
                    holder = {}

                    def ctor():
                        holder["w"] = PinchProblem(path, out_dir, run=True)
                        return holder["w"].results

                    kind, val = run_plain(ctor)
                    a = ask(p, "dict", name)
                    if kind == "raise" and a["kind"] == "ok":
                        # the constructor also exports; an export failure is not an analysis failure
                        probe("wrun_raised_with_ok_analysis:" + type(val).__name__)
                        fpa = fp()
                        d = fp_diff(fpb, fpa)
                        tick("module_state")
                        if d:
                            V("module_state", d[0], step, f"module state differs after run=True constructor: {d[:3]}")
                        outcome = "raise:" + type(val).__name__
                    elif kind == "raise":
                        # constructor wraps any analysis failure in ValueError
                        fpa = fp()
                        d = fp_diff(fpb, fpa)
                        tick("module_state")
                        if d:
                            V("module_state", d[0], step, f"module state differs after failed run=True constructor: {d[:3]}")
                        fault("natural_failure")
                        outcome = "raise:" + type(val).__name__
                        last_kind = "failure"
                    else:
                        outcome = judge_call(step, st, (p, "dict", name), kind, val, "wrun", fpb, None, None)
                        check_held(step)
                log.append([c, op, outcome])
                states.add(prng.digest([sorted(ran), sorted(map(str, used_shared)), aborted_any, bool(swarm.get("timing")), len(wrappers)]))
                if len(viol) >= 6:
                    break
        finally:
            oracle.close()
            drop_scratch(scratch)
        stats["extra"] = dict(clock_reads=clock.reads, clock_jumps=clock.jumps)
        res = dict(
            violations=viol[:8],
            digest=prng.digest(log),
            steps=len(log),
            stats=stats,
            states=sorted(states),
            interleaving=prng.digest([[s.get("client", 0), s["op"]] for s in trace["steps"]]),
            sim_time=clock.span,
        )
        if answers:
            # oracle samples for cross-validation against genuinely fresh interpreters under other hash seeds
            # (problems with a zone tree first: label resolution is where set/dict ordering can leak into results)
            ks = [k for k in answers if not str(k[1]).startswith("file:") and not any(o in (probs[k[0]].get("options") or {}) for o in ("DO_PROCESS_HP_TARGETING", "DO_UTILITY_HP_TARGETING")) and len(probs[k[0]].get("streams", [])) <= 30]
            ks = sorted(ks, key=lambda k: (0 if probs[k[0]].get("zone_tree") else 1, k))[:2]
            res["aux"] = [dict(problem=probs[p], fc=fc, name=name, digest=prng.digest(answers[(p, fc, name)].get("json") if answers[(p, fc, name)]["kind"] == "ok" else [answers[(p, fc, name)]["type"]])) for (p, fc, name) in ks]
        return res

    # ---------------------------------------------------------------- shrinking
    def simplify(self, trace):
        # drop unused problems is implicit (indices are modulo); simplify problems and step arguments
        for k, st in enumerate(trace["steps"]):
            if st.get("abort") is not None:
                t = copy.deepcopy(trace)
                t["steps"][k]["abort"] = None
                t["steps"][k].pop("abort_exc", None)
                yield t
                if st.get("abort_exc"):
                    t = copy.deepcopy(trace)
                    t["steps"][k].pop("abort_exc")
                    yield t
            if st.get("client"):
                t = copy.deepcopy(trace)
                t["steps"][k]["client"] = 0
                yield t
            if st["op"] == "svc" and st["name"] != "Project":
                t = copy.deepcopy(trace)
                t["steps"][k]["name"] = "Project"
                yield t
        if trace.get("swarm", {}).get("timing"):
            t = copy.deepcopy(trace)
            t["swarm"]["timing"] = False
            yield t
        for i, pr in enumerate(trace["problems"]):
            for sp in problems.simplify(pr["data"]):
                t = copy.deepcopy(trace)
                t["problems"][i]["data"] = sp
                yield t

    def warnings(self, stats, tier):
        want = ["shared_object_reused", "same_problem_two_names"]
        out = [f"probe {p} never hit" for p in want if not stats.get("probes", {}).get(p)]
        for f in ("abort", "injected_error:memory", "injected_error:os", "natural_failure", "clock_jump"):
            if not stats.get("faults", {}).get(f):
                out.append(f"fault kind {f} never fired")
        return out

    # ---------------------------------------------------------------- oracle cross-validation
    def extra_selftests(self, ctl):
        """Every sampled oracle answer (pristine fork, this process's hash seed) is recomputed in two genuinely fresh
        interpreters under other PYTHONHASHSEED values, each query in its own fork.  A fresh-vs-fork difference that the two
        fresh interpreters share is a harness error; a difference BETWEEN hash seeds is non-determinism of the library itself,
        i.e. a C11 violation (two fresh processes disagree about the same problem)."""
        import subprocess
        import sys
        import tempfile

        seen, samples = set(), []
        for s_ in ctl.aux:
            k = prng.digest([s_["problem"], s_["fc"], s_["name"]])
            if k not in seen:
                seen.add(k)
                samples.append(s_)
        samples.sort(key=lambda s_: 0 if s_["problem"].get("zone_tree") else 1)
        samples = samples[: (48 if ctl.tier == "quick" else 600)]
        if not samples:
            return {"oracle_cross_validation": dict(checked=0)}
        tmpd = tempfile.mkdtemp(prefix="c11_oracle_", dir="/dev/shm" if os.path.isdir("/dev/shm") else None)
        try:
            script = os.path.join(os.path.dirname(os.path.dirname(os.path.abspath(__file__))), "sim", "fresh_oracle.py")
            seeds = ["1", "77"]
            nparts = max(1, min(len(samples), ctl.workers // 2))
            parts = [samples[i::nparts] for i in range(nparts)]
            procs = []
            for pi, part in enumerate(parts):
                f = os.path.join(tmpd, f"batch{pi}.json")
                json.dump(part, open(f, "w"))
                for hs in seeds:
                    procs.append((pi, hs, subprocess.Popen([sys.executable, script, "--batch", f], env=dict(os.environ, PYTHONHASHSEED=hs), stdout=subprocess.PIPE, stderr=subprocess.PIPE, text=True)))
            got = {}
            for pi, hs, pr in procs:
                out, err = pr.communicate(timeout=3000)
                try:
                    got[(pi, hs)] = json.loads(out.strip().splitlines()[-1])
                except Exception:
                    ctl.errors.append("oracle cross-validation: fresh interpreter produced no answer: " + err[-200:])
                    return {"oracle_cross_validation": dict(checked=0)}
            outs = [[None] * len(samples), [None] * len(samples)]
            for pi in range(nparts):
                for si, hs in enumerate(seeds):
                    for j, dg in enumerate(got[(pi, hs)]):
                        outs[si][pi + j * nparts] = dg
            bad_fork, nondet = 0, 0
            for i, s_ in enumerate(samples):
                a, b = outs[0][i], outs[1][i]
                if a != b or a != s_["digest"]:
                    # fork (this process's hash seed), fresh/1 and fresh/77 are three fresh-process answers to one call:
                    # any disagreement is a candidate violation; the replay (six more hash seeds, fresh interpreters only)
                    # decides - if those all agree the discrepancy was the fork oracle's and is reported as a harness error
                    nondet += 1
                    if nondet <= 3:
                        path = os.path.join(os.environ.get("VERIF_REPLAY_DIR") or os.path.join(os.path.dirname(os.path.dirname(os.path.abspath(__file__))), "replays"), f"C11-{ctl.seed}-hashseed-{prng.digest(s_['problem'])[:10]}.json")
                        os.makedirs(os.path.dirname(path), exist_ok=True)
                        tr = dict(property="C11", swarm=dict(clients=1), problems=[dict(src="hashseed", data=s_["problem"])], steps=[dict(op="hashseed", p=0, fc=s_["fc"], name=s_["name"], client=0)], violation=dict(check="hash_seed", site="fresh_processes_disagree", detail="the same call in two fresh interpreters (PYTHONHASHSEED 1 and 77) gives different results"))
                        json.dump(tr, open(path, "w"), indent=1)
                        ctl.violations_extra = getattr(ctl, "violations_extra", []) + [dict(check="hash_seed", site="fresh_processes_disagree", replay=path, steps=1, occurrences=1, detail=tr["violation"]["detail"])]
            return {"oracle_cross_validation": dict(checked=len(samples), fork_vs_fresh_mismatches=bad_fork, hash_seed_disagreements=nondet, how="every sampled call recomputed in two fresh interpreters (PYTHONHASHSEED 1 and 77), one fork per call")}
        finally:
            import shutil

            shutil.rmtree(tmpd, ignore_errors=True)


WORLD = C11()
