"""Problem generator shared by the C08 pipeline monitor, C11 and C16.

Every generated number is a decimal with <= 6 fractional digits so that every
input channel (dict, JSON, CSV, XLSX) round-trips it exactly.
"""
from __future__ import annotations

import copy
import glob
import json
import os

REPO = os.environ.get("VERIF_REPO", "/repo")

NICE_T = [20, 30, 40, 60, 80, 90, 100, 120, 140, 150, 180, 200, 220, 250, 300]
ZONE_PATTERNS = ["one", "one", "flat2", "flat3", "nested", "suffix", "deep", "blanks"]


def _num(r, nice, lo, hi, choices, dp=(0, 1, 3)):
    if nice:
        return float(r.choice(choices))
    return round(r.uniform(lo, hi), r.choice(dp))


def gen_streams(r, n, nice, zones, dup_names=False):
    out = []
    for k in range(n):
        if nice:
            ts, tt = r.sample(NICE_T, 2)
            ts, tt = float(ts), float(tt)
        else:
            ts = round(r.uniform(5, 400), r.choice([0, 1, 3]))
            tt = round(ts + r.choice([-1, 1]) * r.uniform(1, 180), r.choice([0, 1, 3]))
        if r.random() < 0.04:
            tt = ts  # isothermal (latent) stream; heat_flow sign is positive -> cold
        name = f"S{k % 3 if dup_names else k}"
        if r.random() < 0.02:
            name = ""  # an unnamed stream (the schema allows it)
        out.append(
            dict(
                zone=r.choice(zones),
                name=name,
                t_supply=ts,
                t_target=tt,
                heat_flow=_num(r, nice, 5, 5000, [100, 200, 500, 1000, 2400], (0, 2)) if (r.random() >= 0.03 or ts == tt) else 0.0,  # now and then a stream that carries no duty at all
                dt_cont=_num(r, nice, 0, 20, [0, 2.5, 5, 5, 10], (0, 1)),
                htc=_num(r, nice, 0.05, 5, [0.5, 1, 1, 2], (2,)),
            )
        )
    return out


def gen_utilities(r, streams, nice):
    n = r.choice([0, 0, 1, 2, 2, 3, 4])
    temps = [s["t_supply"] for s in streams] + [s["t_target"] for s in streams]
    tmax, tmin = max(temps), min(temps)
    out = []
    for k in range(n):
        typ = r.choice(["Hot", "Cold", "Hot", "Cold", "Both"])
        if typ == "Hot" or (typ == "Both" and r.random() < 0.5):
            base = r.choice([tmax + 30, tmax + 60, (tmax + tmin) / 2 + 20, tmax - 10])
            glide = r.choice([0, 0, 0.1, 1, 20])
            ts, tt = base, base - glide
        else:
            base = r.choice([tmin - 30, tmin - 15, (tmax + tmin) / 2 - 20, tmin + 10])
            glide = r.choice([0, 0, 0.1, 1, 10])
            ts, tt = base, base + glide
        out.append(
            dict(
                name=r.choice(["ST", "HPS", "LPS", "CW", "CHW", "HO", "U"]) + str(k),
                type=typ,
                t_supply=round(float(ts), 3),
                t_target=round(float(tt), 3),
                heat_flow=None if r.random() < 0.7 else 0.0,
                dt_cont=_num(r, nice, 0, 10, [0, 1, 5], (0, 1)),
                htc=_num(r, nice, 0.1, 5, [1, 1, 2], (2,)),
                price=_num(r, nice, 1, 300, [10, 40, 120], (0, 2)) if r.random() >= 0.12 else dict(value=None, units="$/MWh"),  # now and then left blank: the default price applies
                active=r.random() < 0.93,
            )
        )
    return out


def gen_zones(r):
    pat = r.choice(ZONE_PATTERNS)
    if pat == "one":
        return pat, [r.choice(["Plant", "Process Zone", "A"])]
    if pat == "flat2":
        return pat, ["A", "B"]
    if pat == "flat3":
        return pat, ["A", "B", "Utilities area"]
    if pat == "nested":
        return pat, ["A/X", "A/Y", "B"]
    if pat == "suffix":
        return pat, ["A", "B/A", "B"]
    if pat == "blanks":
        return pat, ["Boiler ", " Mill", "Mill / Dryer", "Boiler"]
    return pat, ["A/X/P", "A/X/Q", "A/Y"]


def generate(r, small=False, max_streams=None):
    nice = r.random() < 0.6
    n = r.choice([1, 2, 3, 4, 5, 6] if small else [1, 2, 3, 4, 5, 6, 8, 10])
    if max_streams:
        n = min(n, max_streams)
    pat, zones = gen_zones(r)
    streams = gen_streams(r, n, nice, zones, dup_names=r.random() < 0.15)
    if r.random() < 0.08 and n >= 2:
        # threshold problem: every hot stream lies wholly above every cold stream (no pinch on one or both sides)
        for k, s_ in enumerate(streams):
            if k % 2 == 0:
                s_["t_supply"], s_["t_target"] = float(r.choice([300, 350, 280])), float(r.choice([200, 220, 240]))
            else:
                s_["t_supply"], s_["t_target"] = float(r.choice([20, 40, 60])), float(r.choice([100, 120, 150]))
    prob = dict(streams=streams, utilities=gen_utilities(r, streams, nice))
    if r.random() < 0.18:
        # explicit zone tree: root + process zones (+ optionally one nested level); generic or specific type names;
        # some streams attached to the root itself (the service then creates a process zone for them)
        labels = sorted({s["zone"].split("/")[0] for s in streams})
        root = r.choice(["Site", "Site", "Works"])
        generic = r.random() < 0.5
        kids = []
        for z in labels:
            node = dict(name=z, type=r.choice(["Zone", "Sub-Zone", "Zone"]) if generic else "Process Zone", children=None)
            if r.random() < 0.25:
                node["children"] = [dict(name=z + "-1", type="Zone" if generic else "Process Zone", children=None)]
            kids.append(node)
        if r.random() < 0.3 and len(kids) >= 2:
            # two branches holding a node of the same name at the same depth, and streams labelled with that short name only
            for node in kids[:2]:
                node["children"] = (node["children"] or []) + [dict(name="Dryer", type="Zone" if generic else "Process Zone", children=None)]
            for s in streams[: max(1, len(streams) // 3)]:
                s["zone"] = "Dryer"
        prob["zone_tree"] = dict(name=root, type=r.choice(["Zone", "Site", ""]) if generic else "Site", children=kids)
        for s in streams:
            s["zone"] = s["zone"].split("/")[0]
            if r.random() < 0.15:
                s["zone"] = root  # attached to the root zone
    return prob


WIRED_FLAGS = ["DO_VERTICAL_GCC", "DO_ASSITED_HT", "DO_BALANCED_CC", "DO_AREA_TARGETING", "DO_EXERGY_TARGETING", "DO_DIRECT_OPERATION_TARGETING"]


def gen_options(r, kind="c11"):
    """Boolean options wired into the pipeline; None = no options block."""
    x = r.random()
    if x < 0.45:
        return None
    opts = {}
    for f in WIRED_FLAGS:
        if r.random() < 0.3:
            opts[f] = (r.random() < 0.75) if f != "DO_BALANCED_CC" else (r.random() < 0.5)
    if r.random() < 0.2:
        opts["DT_CONT"] = float(r.choice([0, 5, 10]))
    # numeric options inside their documented ranges
    for key, vals, pw in (("DECIMAL_PLACES", [1, 3, 4], 0.12), ("DT_PHASE_CHANGE", [0.05, 0.5, 1.0], 0.08), ("HTC", [0.5, 2.0], 0.06),
                          ("UTILITY_PRICE", [20.0, 80.0], 0.06), ("ANNUAL_OP_TIME", [4000.0, 0, 0.0, 0], 0.12), ("T_ENV", [10.0, 25.0], 0.06),
                          ("DISCOUNT_RATE", [0.05, 0.1], 0.04), ("SERV_LIFE", [10.0, 25.0], 0.04)):
        if r.random() < pw:
            opts[key] = r.choice(vals)
    if r.random() < 0.15:
        opts["REFRIGERANTS"] = r.choice(["water,ammonia", "R134a", "propane,water"])
    if r.random() < 0.06:
        opts["DECIMAL_PLACES"] = r.choice([3.0, "3", None, 4])  # as a spreadsheet or a hand-written JSON file may deliver it
    return opts or None


def simplify(prob):
    """Yield smaller variants of a problem (for shrinking)."""
    if len(prob["streams"]) > 1:
        for j in range(len(prob["streams"])):
            p = copy.deepcopy(prob)
            del p["streams"][j]
            yield p
    for j in range(len(prob.get("utilities") or [])):
        p = copy.deepcopy(prob)
        del p["utilities"][j]
        yield p
    if prob.get("options"):
        for k in list(prob["options"]):
            p = copy.deepcopy(prob)
            del p["options"][k]
            if not p["options"]:
                del p["options"]
            yield p
    if prob.get("zone_tree"):
        p = copy.deepcopy(prob)
        del p["zone_tree"]
        yield p
    zs = {s["zone"] for s in prob["streams"]}
    if len(zs) > 1 or (zs and next(iter(zs)) != "A"):
        p = copy.deepcopy(prob)
        for s in p["streams"]:
            s["zone"] = "A"
        p.pop("zone_tree", None)
        yield p


_CORPUS = None


def corpus():
    """Shipped example problems (name, dict), sorted by name; big ones last."""
    global _CORPUS
    if _CORPUS is None:
        out = []
        for f in sorted(glob.glob(os.path.join(REPO, "OpenPinch/examples/stream_data/p_*.json"))):
            with open(f) as fh:
                out.append((os.path.basename(f)[2:-5], json.load(fh)))
        _CORPUS = out
    return _CORPUS


def plain_numbers(prob):
    """Copy of a problem with every value-with-unit object replaced by its number."""
    p = copy.deepcopy(prob)
    for rec in p.get("streams", []) + (p.get("utilities") or []):
        for k, v in list(rec.items()):
            if isinstance(v, dict) and "value" in v:
                rec[k] = v["value"]
    return p
