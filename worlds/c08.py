"""C08 — inserting temperature intervals never changes any curve.

Two configurations (swarm choice per run):
  direct   : one ProblemTable (built by the real builder from random streams, or synthetic
             with a random subset of curve columns populated) receives a generated history
             of insert_temperature_interval requests; after every call the table is compared
             with a piecewise-linear reference model of the ORIGINAL table.
  pipeline : real pinch_analysis_service calls on generated problems with
             ProblemTable.insert_temperature_interval wrapped, so that every call the
             pipeline itself makes is snapshotted before/after and put through the same checks.
Fault set: empty (in-memory object).  The explored dimension is the request history.
"""
from __future__ import annotations

import copy
import math

import numpy as np

from sim import prng
from sim.engine import World

TOL = 1e-6  # the library's documented row tolerance (OpenPinch.lib.config.tol); asserted equal at setup
# Cumulative enthalpy curve columns (written out here on purpose: the oracle must not import the
# library's own list).  H_hot_net_utility / H_cold_net_utility are declared by the label enum as
# cumulative enthalpy columns; no pipeline stage writes them, but "any column subset populated" includes
# them (a caller can fill them through loc / update_row), so they are judged too (defect 2767eef).
CURVES = [
    "H_hot", "H_cold", "H_net", "H_net_np", "H_net_actual", "H_net_vert", "H_net_pockets", "H_net_assisted",
    "H_net_ut", "H_hot_net", "H_cold_net", "H_net_with_air", "H_net_hp_ut", "H_net_hp_pro", "H_hot_utility",
    "H_cold_utility", "H_hot_balanced", "H_cold_balanced", "H_hot_hp_ut", "H_cold_hp_ut",
    "H_hot_net_utility_after_hp", "H_cold_net_utility_after_hp", "H_hot_net_utility", "H_cold_net_utility",
]
DT = "\N{GREEK CAPITAL LETTER DELTA}T"
PAIRS = [("mcp_hot_tot", "\N{GREEK CAPITAL LETTER DELTA}H_hot"), ("mcp_cold_tot", "\N{GREEK CAPITAL LETTER DELTA}H_cold"), ("CP_NET", "\N{GREEK CAPITAL LETTER DELTA}H_net")]


# ------------------------------------------------------------------------------------------------ checks
def table_view(pt):
    d = pt.data
    ci = pt.col_index
    return dict(T=d[:, ci["T"]].copy(), data=d.copy(), ci=dict(ci))


def block_kind(before_T, req):
    kinds = set()
    for t in req:
        if t > before_T[0] + TOL:
            kinds.add("top")
        elif t < before_T[-1] - TOL:
            kinds.add("bottom")
        elif np.min(np.abs(before_T - t)) > TOL:
            kinds.add("middle")
    if not kinds:
        return "none"
    return "mixed" if len(kinds) > 1 else kinds.pop()


def check_insert(before, after, req, ret, ref, V, tick, site):
    """before/after: table_view dicts; req: resolved request (list of floats); ret: return value;
    ref: reference table_view (curve model), usually `before`, or the original table for histories."""
    Tb, Ta = before["T"], after["T"]
    ci = after["ci"]
    A = after["data"]
    n_new = len(Ta) - len(Tb)
    tick("count")
    if ret != n_new:
        V("count", site, f"returned {ret!r} but rows went {len(Tb)} -> {len(Ta)}")
    tick("order")
    if not np.all(np.diff(Ta) < 0):
        V("order", site, f"T not strictly descending: {Ta.tolist()[:12]}")
        return
    old = set(Tb.tolist())
    new_idx = [i for i, t in enumerate(Ta.tolist()) if t not in old]
    if len(new_idx) != n_new or not old <= set(Ta.tolist()):
        V("order", site, "an existing row temperature was changed or dropped")
        return
    for i in new_idx:
        slack = 8 * np.spacing(max(abs(float(Ta[0])), abs(float(Ta[-1]))))
        if (i > 0 and Ta[i - 1] - Ta[i] <= TOL - slack) or (i + 1 < len(Ta) and Ta[i] - Ta[i + 1] <= TOL - slack):
            V("order", site, f"new row T={Ta[i]!r} within tolerance of a neighbour")
            break
    tick("covered")
    for t in req:
        if np.min(np.abs(Ta - t)) > TOL * (1 + 1e-9) + 1e-12 + 8 * np.spacing(max(abs(float(Ta[0])), abs(float(Ta[-1])), abs(t))):
            V("covered", site, f"requested T={t!r} is not within tolerance of any row")
            break
    # curves: equal to the piecewise-linear reference at every row
    if "cols" not in ref:
        ref = dict(cols={name: (ref["T"], ref["data"][:, ref["ci"][name]]) for name in CURVES if name in ref["ci"]})
    for name in CURVES:
        if name not in ci or name not in ref["cols"]:
            continue
        Tr, col_r = ref["cols"][name]
        xr = Tr[::-1]
        col_a = A[:, ci[name]]
        if np.isnan(col_r).all():
            tick("nan_cols")
            if not np.isnan(col_a).all():
                V("nan_cols", site, f"all-NaN column {name} acquired values")
            continue
        if np.isnan(col_r).any():
            tick("partial_nan_column_not_judged")
            continue  # partially populated columns are not generated; pipeline tables with them are not judged
        tick("curve")
        exp = np.interp(Ta[::-1], xr, col_r[::-1])[::-1]
        scale = 1e-9 * (1.0 + float(np.max(np.abs(col_r))))
        bad = ~(np.abs(col_a - exp) <= scale)
        if bad.any():
            k = int(np.argmax(bad))
            V("curve", site, f"column {name} at T={Ta[k]!r}: {col_a[k]!r}, piecewise-linear reference {exp[k]!r}")
            break
    # interval width = gap to the row above (row 0 has no row above: exempt), if it held before the call
    if DT in ci:
        B = before["data"]
        dtb = B[:, ci[DT]]
        pre = len(Tb) < 2 or (not np.isnan(dtb[1:]).any() and np.allclose(dtb[1:], Tb[:-1] - Tb[1:], rtol=0, atol=1e-9))
        if pre and not np.isnan(dtb).all():
            tick("width")
            dta = A[:, ci[DT]]
            gaps = Ta[:-1] - Ta[1:]
            bad = ~(np.abs(dta[1:] - gaps) <= 1e-9 * (1 + np.abs(gaps)))
            if bad.any():
                k = int(np.argmax(bad)) + 1
                V("width", site, f"row {k} (T={Ta[k]!r}): interval width {dta[k]!r}, gap to the row above {gaps[k - 1]!r}")
            # enthalpy change = heat capacity x width, if it held before
            for cp, dh in PAIRS:
                if cp not in ci or dh not in ci:
                    continue
                cpb, dhb = B[:, ci[cp]], B[:, ci[dh]]
                if np.isnan(cpb).any() or np.isnan(dhb).any():
                    continue
                if not np.allclose(dhb[1:], cpb[1:] * dtb[1:], rtol=1e-9, atol=1e-9):
                    continue
                tick("dH")
                cpa, dha = A[:, ci[cp]], A[:, ci[dh]]
                lhs, rhs = dha[1:], cpa[1:] * dta[1:]
                bad = ~(np.abs(lhs - rhs) <= 1e-9 * (1 + np.abs(rhs)))
                if bad.any():
                    k = int(np.argmax(bad)) + 1
                    V("dH", site, f"row {k} (T={Ta[k]!r}): {dh}={dha[k]!r} but {cp}*width={cpa[k] * dta[k]!r}")
                    break


# ------------------------------------------------------------------------------------------------ world
class C08(World):
    pid = "C08"
    chunk = 40
    run_timeout = 20.0
    quick = dict(runs=24000, budget_s=50)
    thorough = dict(runs=2_000_000, budget_s=900)
    components_real = [
        "OpenPinch.classes.problem_table.ProblemTable.insert_temperature_interval (+ all private helpers)",
        "OpenPinch.analysis.problem_table_analysis.create_problem_table_with_t_int / problem_table_algorithm / get_process_heat_cascade (table builders)",
        "OpenPinch.main.pinch_analysis_service (pipeline configuration: every real call site of insert_temperature_interval)",
    ]
    components_stub = []
    fault_kinds = []
    state_abstraction = "(row count, sorted multiset of insertion classes applied so far [top/middle/bottom/mixed/none], column count, all-NaN mask over the 24 curve columns)"
    rule = (
        "direct runs: one table (real builder from 1-8 random streams, or synthetic with a random subset of the 24 curve columns "
        "populated, others NaN) + a history of 1-12 insertion requests (scalars / lists of 1-6 temperatures placed relative to the "
        "CURRENT rows: interval mid/off-centre points, several per interval, above top, below bottom, exact duplicates, values at "
        "0.5/2 tol of rows, 0.7-tol chains, unsorted, empty, re-issued earlier requests); pipeline runs: one real service call on a "
        "generated problem with every internal insert call monitored.  distinct = distinct step list; non-trivial = >=2 insertion "
        "requests of which >=1 adds a row (direct) or >=1 monitored internal call (pipeline).  Fault set empty: in-memory object."
    )
    assumptions = [
        "row 0 interval width is exempt (no row above it; the pinned suite fixes a non-zero value there for a single top insertion)",
        "curve columns are either fully populated or all-NaN; width/dH are judged only when they held before the call",
        "requests exactly at the tolerance knife-edge (|T - row| == tol to the last ulp) are not generated",
    ]

    def setup_node(self):
        from OpenPinch.lib import config

        assert config.tol == TOL

    # ---------------------------------------------------------------- generation
    def generate(self, seed, run):
        S = prng.Streams(seed)
        sw, args = S("swarm"), S("args")
        mode = "pipeline" if sw.random() < 0.06 else "direct"
        if mode == "pipeline":
            from worlds import problems

            pr = S("problem")
            if pr.random() < 0.3:
                corp = [c for c in problems.corpus() if len(c[1]["streams"]) <= 30]
                name, prob = corp[pr.randrange(len(corp))]
                prob = copy.deepcopy(prob)
            else:
                prob = problems.generate(pr, small=True)
            opts = problems.gen_options(S("options"), kind="c08")
            if opts:
                prob["options"] = opts
            if sw.random() < 0.025:
                # heat-pump targeting reaches the third call site (calc_heat_pump_cascade) within seconds,
                # even though the service call as a whole then raises further on
                prob["options"] = dict(prob.get("options") or {}, **{sw.choice(["DO_PROCESS_HP_TARGETING", "DO_UTILITY_HP_TARGETING"]): True})
            return dict(swarm=dict(mode=mode), steps=[dict(op="pipeline", problem=prob)])
        swarm = dict(
            mode=mode,
            source=sw.choice(["builder", "builder", "cascade", "synthetic", "synthetic"]),
            n_req=sw.choice([1, 2, 3, 5, 8, 12]),
            nice=sw.random() < 0.6,
            shifted=sw.random() < 0.5,
            p_populate=sw.choice([0, 0, 0.15, 0.4]),
            w=dict(mid=sw.choice([1, 3]), top=sw.choice([0, 1]), bot=sw.choice([0, 1]), row=sw.choice([0, 1, 2]), chain=sw.choice([0, 0, 1]), absv=sw.choice([0, 1]), again=sw.choice([0, 1])),
        )
        nice = swarm["nice"]
        steps = []
        big = self.tier == "thorough" and sw.random() < 0.25
        bulk = sw.random() < 0.03  # a long table and requests of dozens of values in one call
        if bulk:
            swarm.update(source="synthetic", n_req=sw.choice([2, 3]), bulk=True)
        if big:
            swarm["n_req"] = sw.choice([12, 20, 30])
        if swarm["source"] in ("builder", "cascade"):
            n = args.choice([1, 2, 3, 4, 6, 8] if not big else [12, 20, 40])
            streams = []
            for k in range(n):
                if nice:
                    ts, tt = args.sample([20, 40, 60, 80, 100, 120, 150, 180, 200, 250, 300], 2)
                else:
                    ts = round(args.uniform(0, 400), args.choice([0, 1, 3]))
                    tt = round(ts + args.choice([-1, 1]) * args.uniform(0.5, 150), args.choice([0, 1, 3]))
                streams.append(dict(name=f"S{k}", t_supply=float(ts), t_target=float(tt), heat_flow=float(args.choice([50, 100, 400, 1000])) if nice else round(args.uniform(1, 3000), 2), dt_cont=float(args.choice([0, 5, 10])), htc=1.0))
            steps.append(dict(op="build", source=swarm["source"], streams=streams, shifted=swarm["shifted"]))
            if args.random() < 0.15:
                # work on a column subset in another order, as `pt[[...]]` returns it
                steps.append(dict(op="subset", order=[args.randrange(1000) for _ in range(12)], keep_dt=args.random() < 0.7))
        else:
            n = args.choice([2, 3, 4, 6, 10]) if not bulk else args.choice([64, 90, 130])
            T = [float(args.choice([400, 300, 250.5]))]
            if args.random() < 0.08:
                T = [float(args.choice([1.0e6, -150.0, 5.0e4]))]  # far from the usual range
            for _ in range(n - 1):
                T.append(round(T[-1] - args.choice([0.01, 1, 5, 25, 50, 2e-5, 1e-4, round(args.uniform(0.001, 60), 4)]), 6))
            k = args.choice([1, 2, 4, 8, len(CURVES)])
            cols = {}
            for name in args.sample(CURVES, k):
                mode_c = args.choice(["mono", "rand", "flat"])
                if mode_c == "flat":
                    vals = [float(args.choice([0, 100]))] * n
                elif mode_c == "mono":
                    acc, vals = 0.0, []
                    for _ in range(n):
                        acc += args.choice([0, 10, 50, 1.0e7, round(args.uniform(0, 500), 3)])
                        vals.append(acc)
                    if args.random() < 0.5:
                        vals = vals[::-1]
                else:
                    vals = [round(args.uniform(-1000, 1000), 3) for _ in range(n)]
                cols[name] = vals
            cps = {}
            if args.random() < 0.8:
                for cp, dh in PAIRS:
                    cps[cp] = [0.0] + [float(args.choice([0, 1, 2, 5])) if nice else round(args.uniform(0, 20), 3) for _ in range(n - 1)]
            extras = {}
            if args.random() < 0.5:
                for name in ("rCP_hot", "rCP_cold"):
                    extras[name] = [0.0] + [round(args.uniform(0, 5), 3) for _ in range(n - 1)]
            steps.append(dict(op="synthetic", T=T, curves=cols, cps=cps, extras=extras, with_dt=args.random() < 0.9))
        w = swarm["w"]
        kinds = [("mid", w["mid"]), ("top", w["top"]), ("bot", w["bot"]), ("row", w["row"]), ("chain", w["chain"]), ("abs", w["absv"])]
        if not any(x for _, x in kinds):
            kinds[0] = ("mid", 1)

        def one_ref():
            kd = args.choices([k for k, _ in kinds], [x for _, x in kinds])[0]
            if kd == "mid":
                return [["mid", args.randrange(64), args.choice([0.5, 0.5, 0.1, 0.25, 0.9, 1 / 3, round(args.random(), 4)])]]
            if kd == "top":
                return [["top", args.choice([1.0, 10.0, 50.0, 0.5e-6, 2e-6, round(args.uniform(0.001, 100), 3)])]]
            if kd == "bot":
                return [["bot", args.choice([1.0, 10.0, 50.0, 0.5e-6, 2e-6, round(args.uniform(0.001, 100), 3)])]]
            if kd == "row":
                return [["row", args.randrange(64), args.choice([0.0, 0.0, 0.5, -0.5, 2.0, -2.0, 0.9, -0.9, 1.5, -1.5])]]
            if kd == "chain":
                k, f, m = args.randrange(64), args.choice([0.5, 0.2, 0.8]), args.choice([2, 3, 4])
                sp = args.choice([0.7, 0.7, 0.4, 1.5])
                return [["midoff", k, f, i * sp] for i in range(m)]
            return [["abs", float(args.choice([0, 55, 123.456, 210, 500, -20])) if nice else round(args.uniform(-50, 450), args.choice([0, 2, 6]))]]

        for r in range(swarm["n_req"]):
            if r and args.random() < swarm["p_populate"]:
                # between two insertions the owner of the table fills a curve column (as the pipeline stages do) or works on a copy
                x_ = args.random()
                if x_ < 0.12:
                    steps.append(dict(op="copy"))
                elif x_ < 0.27:
                    # the owner moves the whole temperature scale in place (real <-> shifted temperatures, degC <-> K), half of the
                    # time right after a request that adds nothing (so that nothing has replaced the table's buffer in between)
                    if args.random() < 0.5:
                        steps.append(dict(op="insert", form=args.choice(["list", "ndarray", "scalar", "own_column"]), refs=[["row", args.randrange(64), 0.0]]))
                    steps.append(dict(op="retemp", d=float(args.choice([5.0, -10.0, 2.5, 273.15, -0.5, 37.0])), via=args.choice(["col", "icol", "update", "data", "loc"])))
                elif x_ < 0.4:
                    steps.append(dict(op="shift", col=args.randrange(64), dh=float(args.choice([100.0, -50.0, 0.125]))))
                elif x_ < 0.55:
                    steps.append(dict(op="readonly"))
                else:
                    steps.append(dict(op="populate", col=args.randrange(64), prefer_nan=args.random() < 0.7, via=args.choice(["loc", "iloc", "icol", "col", "update", "update_row", "data"]), vals=[round(args.uniform(-500, 1500), 3) for _ in range(7)]))
            if r and w["again"] and args.random() < 0.2:
                steps.append(dict(op="again", which=args.randrange(64)))
                continue
            form = args.choice(["scalar", "list", "list", "list", "ndarray", "tuple", "int_array", "own_column"])
            if bulk:
                m_ = args.choice([50, 70, 110])
                refs = [["mid", args.randrange(256), round(args.random(), 3)] for _ in range(m_ - 8)]
                refs += [["top", args.choice([0.4e-6, 0.9e-6, 2e-6, 1.0])], ["bot", args.choice([0.4e-6, 0.9e-6, 2e-6, 1.0])], ["row", 0, 0.4], ["row", 0, -0.4], ["row", 255, 0.4], ["row", 255, -0.4], ["top", 0.4e-6], ["bot", 0.4e-6]]
                args.shuffle(refs)
                steps.append(dict(op="insert", form=args.choice(["list", "ndarray"]), refs=refs))
                continue
            if form == "scalar":
                refs = one_ref()[:1]
            else:
                refs = []
                for _ in range(args.choice([0, 1, 1, 2, 3, 4, 6]) if args.random() < 0.97 else 0):
                    refs += one_ref()
                if len(refs) > 1 and args.random() < 0.3:
                    refs.append(refs[args.randrange(len(refs))])  # duplicate inside the request
                args.shuffle(refs)
            steps.append(dict(op="insert", form=form, refs=refs))
        return dict(swarm=swarm, steps=steps)

    def nontrivial(self, trace):
        ops = [s["op"] for s in trace["steps"]]
        return ops == ["pipeline"] or sum(o in ("insert", "again") for o in ops) >= 2

    # ---------------------------------------------------------------- execution
    def execute(self, trace):
        viol, log = [], []
        stats = dict(ops={}, pairs={}, probes={}, checks={})
        states = set()
        seen = set()

        def probe(name, n=1):
            stats["probes"][name] = stats["probes"].get(name, 0) + n

        def tick(name):
            stats["checks"][name] = stats["checks"].get(name, 0) + 1

        cur = dict(step=0)

        def V(check, site, detail):
            if (check, site) in seen:
                return
            seen.add((check, site))
            viol.append(dict(check=check, site=site, step=cur["step"], detail=detail))

        steps = trace["steps"]
        if steps and steps[0]["op"] == "pipeline":
            self._pipeline(steps[0], V, tick, probe, log, stats)
            return dict(violations=viol[:8], digest=prng.digest(log), steps=len(log), stats=stats, states=[], sim_time=0.0)

        from OpenPinch.classes.problem_table import ProblemTable

        pt = None
        original = None
        history = []  # resolved requests
        applied = []
        ncall = 0
        prev = None
        for si, st in enumerate(steps):
            cur["step"] = si
            op = st["op"]
            stats["ops"][op] = stats["ops"].get(op, 0) + 1
            if prev:
                stats["pairs"][prev + ">" + op] = stats["pairs"].get(prev + ">" + op, 0) + 1
            prev = op
            if op == "build":
                pt = self._build(st)
                original = table_view(pt) if pt is not None else None
                if original is not None:
                    original["cols"] = {name: (original["T"], original["data"][:, original["ci"][name]]) for name in CURVES if name in original["ci"]}
                log.append(["build", None if pt is None else pt.data.shape[0]])
                continue
            if op == "synthetic":
                n = len(st["T"])
                d = {"T": st["T"]}
                if st["with_dt"]:
                    d[DT] = [0.0] + [st["T"][i - 1] - st["T"][i] for i in range(1, n)]
                d.update(st["curves"])
                for (cp, dh) in PAIRS:
                    if cp in st["cps"]:
                        d[cp] = st["cps"][cp]
                        if st["with_dt"]:
                            d[dh] = [c * w for c, w in zip(st["cps"][cp], d[DT])]
                d.update(st["extras"])
                pt = ProblemTable(d)
                original = table_view(pt)
                original["cols"] = {name: (original["T"], original["data"][:, original["ci"][name]]) for name in CURVES if name in original["ci"]}
                if any(np.isnan(pt.data[:, pt.col_index[c]]).all() for c in CURVES if c in pt.col_index):
                    probe("nan_column_present")
                log.append(["synthetic", n, sorted(st["curves"])])
                continue
            if pt is None or pt.data is None or pt.data.shape[0] < 2:
                log.append([op, "skip"])
                continue
            T = pt.data[:, pt.col_index["T"]]
            if op == "copy":
                pt = pt.copy
                probe("continued_on_a_copy")
                log.append([op])
                continue
            if op == "subset":
                ci_ = pt.col_index
                # every column kept, only their order changes (a table that lacks columns altogether is not a problem table
                # the method accepts: it raises KeyError for it on the unchanged tree, which is recorded, not judged)
                cols_ = ["T"] + [c for c in pt.columns if c != "T"]
                keyed = sorted(range(1, len(cols_)), key=lambda i_: (st["order"][i_ % len(st["order"])], i_))
                cols_ = ["T"] + [cols_[i_] for i_ in keyed] if st["keep_dt"] else [cols_[i_] for i_ in keyed[: len(keyed) // 2]] + ["T"] + [cols_[i_] for i_ in keyed[len(keyed) // 2 :]]
                try:
                    pt = pt[cols_]
                except Exception as e:
                    log.append([op, "raise", type(e).__name__])
                    continue
                original = table_view(pt)
                original["cols"] = {name: (original["T"], original["data"][:, original["ci"][name]]) for name in CURVES if name in original["ci"]}
                probe("table_is_a_column_subset_in_another_order")
                log.append([op, cols_])
                continue
            if op == "readonly":
                try:  # read-only surface of the table: must not disturb anything (judged by the checks of the next insertion)
                    pt.to_dataframe
                    pt.shape
                    len(pt)
                    pt.to_list("T")
                    pt.pinch_idx("H_net")
                    pt[["T", "H_net"]]
                    pt == pt
                except Exception as e:
                    log.append(["readonly_exc", type(e).__name__])
                probe("readonly_surface_used")
                log.append([op])
                continue
            if op == "shift":
                ci_ = pt.col_index
                pop = [c for c in CURVES if c in ci_ and not np.isnan(pt.data[:, ci_[c]]).any()]
                if not pop:
                    log.append([op, "skip"])
                    continue
                name = pop[st["col"] % len(pop)]
                res_ = pt.shift_heat_cascade(st["dh"], name)  # shifts the column in place and returns a copy of the table
                if st["col"] % 3 == 0:
                    pt = res_  # carry on with the returned copy
                Tr_, vals_ = original["cols"][name]
                original["cols"][name] = (Tr_, vals_ + st["dh"])
                probe("cascade_shifted_between_insertions")
                log.append([op, name, st["dh"]])
                continue
            if op == "retemp":
                ci_ = pt.col_index
                d_ = st["d"]
                newT = T + d_
                via = st["via"]
                if via == "col":
                    pt.col["T"] = newT
                elif via == "icol":
                    pt.icol[ci_["T"]] = newT
                elif via == "update":
                    pt.update({"T": newT})
                elif via == "loc":
                    for i in range(len(newT)):
                        pt.loc[i, "T"] = newT[i]
                else:
                    pt.data[:, ci_["T"]] = newT
                now_ = pt.data[:, ci_["T"]].copy()
                # the table now is this table: every curve is re-based on the temperatures actually stored (each insertion so far
                # was judged when it happened, so the current rows are the reference curve sampled at the current temperatures)
                for name_ in list(original["cols"]):
                    if name_ in ci_:
                        original["cols"][name_] = (now_.copy(), pt.data[:, ci_[name_]].copy())
                probe("temperature_scale_moved_in_place_between_insertions")
                log.append([op, d_, via])
                continue
            if op == "populate":
                ci_ = pt.col_index
                present_ = [c for c in CURVES if c in ci_]
                if not present_:
                    log.append([op, "skip"])
                    continue
                nan_cols = [c for c in present_ if np.isnan(pt.data[:, ci_[c]]).all()]
                pool = nan_cols if (st["prefer_nan"] and nan_cols) else present_
                name = pool[st["col"] % len(pool)]
                n = pt.data.shape[0]
                vals = np.asarray([st["vals"][i % len(st["vals"])] + 0.37 * i for i in range(n)], dtype=float)
                via = st["via"]
                if via == "loc":
                    for i in range(n):
                        pt.loc[i, name] = vals[i]
                elif via == "iloc":
                    for i in range(n):
                        pt.iloc[i, name] = vals[i]
                elif via == "icol":
                    pt.icol[ci_[name]] = vals
                elif via == "col":
                    pt.col[name] = vals
                elif via == "update":
                    pt.update({name: vals})
                elif via == "update_row":
                    for i in range(n):
                        pt.update_row(i, {name: vals[i]})
                else:
                    pt.data[:, ci_[name]] = vals
                original["cols"][name] = (T.copy(), vals.copy())
                probe("column_populated_between_insertions")
                if name in nan_cols:
                    probe("nan_column_populated_between_insertions")
                log.append([op, name, via])
                continue
            if op == "again":
                if not history:
                    log.append([op, "skip"])
                    continue
                form, req = history[st["which"] % len(history)]
                probe("reissued_earlier_request")
            else:
                form, req = st["form"], [self._resolve(r, T) for r in st["refs"]]
            before = table_view(pt)
            arg = req[0] if form == "scalar" and req else list(req)
            if form == "scalar" and not req:
                arg = []
            elif form == "ndarray":
                arg = np.asarray(req, dtype=float)
            elif form == "tuple":
                arg = tuple(req)
            elif form == "own_column":
                # the caller passes (a view of) the table's own temperature column, e.g. to make sure all of them are present
                arg = pt.col["T"] if len(req) % 2 == 0 else pt.col["T"][::-1]
                req = [float(x) for x in np.asarray(arg, dtype=float).tolist()]
                probe("request_is_view_of_own_column")
            elif form == "int_array":
                req = [float(round(x)) for x in req]  # integral temperatures handed over as an integer-typed array
                arg = np.asarray([int(x) for x in req], dtype=np.int64)
            try:
                ret = pt.insert_temperature_interval(arg)
            except Exception as e:
                V("raises", "direct|" + block_kind(before["T"], req), f"insert_temperature_interval({arg!r}) raised {type(e).__name__}: {e}")
                log.append([op, "raise", type(e).__name__])
                break
            ncall += 1
            after = table_view(pt)
            bk = block_kind(before["T"], req)
            site = f"direct|{bk}|{'first' if ncall == 1 else 'later'}"
            n0 = len(viol)
            check_insert(before, after, req, ret, original, V, tick, site)
            # probes
            probe("block_" + bk)
            if ncall >= 2:
                probe("second_or_later_call")
            if ret and len(req) > ret:
                probe("request_partly_filtered")
            if req and ret == 0:
                probe("request_fully_filtered")
            if len(req) != len(set(req)):
                probe("duplicate_inside_request")
            if not req:
                probe("empty_request")
            if bk in ("middle", "mixed") and ret >= 2:
                ins = sorted(set(after["T"].tolist()) - set(before["T"].tolist()), reverse=True)
                idx = np.searchsorted(-before["T"], -np.asarray(ins))
                if len(idx) != len(set(idx.tolist())):
                    probe("several_inserts_in_one_interval")
            # idempotence: the same request again adds nothing and leaves every bit alone
            tick("idempotent")
            snap = pt.data.copy()
            try:
                ret2 = pt.insert_temperature_interval(arg)
            except Exception as e:
                ret2 = f"raise {type(e).__name__}"
            if ret2 != 0 or not np.array_equal(snap, pt.data, equal_nan=True):
                V("idempotent", site, f"re-issuing the same request returned {ret2!r} / changed the table (rows {snap.shape[0]} -> {pt.data.shape[0]})")
                pt.data = snap
            history.append((form, req))
            applied.append(bk)
            log.append([op, form, [repr(x) for x in req], ret, prng.digest([repr(x) for x in pt.data.ravel().tolist()])])
            states.add(prng.digest([pt.data.shape[0], sorted(applied), original["data"].shape[1], [bool(np.isnan(original["data"][:, original["ci"][c]]).all()) if c in original["ci"] else None for c in CURVES]]))
            if len(viol) > n0 and any(v["check"] in ("order", "count", "raises") for v in viol[n0:]):
                break
        return dict(violations=viol[:8], digest=prng.digest(log), steps=len(log), stats=stats, states=sorted(states), sim_time=0.0)

    @staticmethod
    def _resolve(ref, T):
        kind = ref[0]
        n = len(T)
        if kind == "mid" or kind == "midoff":
            k = ref[1] % (n - 1)
            t = T[k + 1] + ref[2] * (T[k] - T[k + 1])
            if kind == "midoff":
                t += ref[3] * TOL
            return float(t)
        if kind == "top":
            return float(T[0] + ref[1])
        if kind == "bot":
            return float(T[-1] - ref[1])
        if kind == "row":
            return float(T[(ref[1] % n) if ref[1] != 255 else n - 1] + ref[2] * TOL)
        return float(ref[1])

    def _build(self, st):
        from OpenPinch.analysis.problem_table_analysis import create_problem_table_with_t_int, get_process_heat_cascade, problem_table_algorithm
        from OpenPinch.classes.stream import Stream
        from OpenPinch.classes.stream_collection import StreamCollection

        hot, cold, allc = StreamCollection(), StreamCollection(), StreamCollection()
        for kw in st["streams"]:
            s = Stream(**kw)
            (hot if s.type == "Hot" else cold).add(s)
            allc.add(s)
        if st["source"] == "cascade":
            return get_process_heat_cascade(hot, cold, allc, None, st["shifted"])
        pt = create_problem_table_with_t_int(allc, st["shifted"])
        problem_table_algorithm(pt, hot, cold, st["shifted"])
        return pt

    # ---------------------------------------------------------------- pipeline monitor
    def _pipeline(self, st, V, tick, probe, log, stats):
        import inspect

        from OpenPinch.classes.problem_table import ProblemTable
        from OpenPinch.main import pinch_analysis_service

        real = ProblemTable.insert_temperature_interval
        calls = []

        def wrapped(self_pt, T_ls, *more, **kw):
            # any further arguments a call site passes are forwarded untouched (the monitor must not depend on the signature)
            fr = inspect.currentframe().f_back
            site_fn = f"{fr.f_code.co_filename.rsplit('/', 1)[-1]}:{fr.f_code.co_name}"
            if self_pt.data is None:
                return real(self_pt, T_ls, *more, **kw)
            if more or kw:
                probe("pipeline_call_with_extra_arguments")
            before = table_view(self_pt)
            ret = real(self_pt, T_ls, *more, **kw)
            after = table_view(self_pt)
            req = [float(x) for x in np.atleast_1d(np.asarray(T_ls, dtype=float)).tolist()]
            bk = block_kind(before["T"], req) if len(before["T"]) else "none"
            calls.append(site_fn)
            probe("site_" + site_fn)
            probe("pipeline_block_" + bk)
            if len(before["T"]) >= 2 and np.all(np.diff(before["T"]) < 0):
                check_insert(before, after, req, ret, before, V, tick, f"pipeline|{site_fn}|{bk}")
            else:
                probe("pipeline_table_not_descending_before_call")
            log.append(["call", site_fn, [repr(x) for x in req], ret])
            return ret

        ProblemTable.insert_temperature_interval = wrapped
        try:
            try:
                pinch_analysis_service(copy.deepcopy(st["problem"]), project_name="P")
                log.append(["service", "ok"])
            except Exception as e:
                log.append(["service", "raise", type(e).__name__])
                probe("service_raised")
        finally:
            ProblemTable.insert_temperature_interval = real
        stats["ops"]["pipeline"] = 1
        stats["ops"]["pipeline_insert_calls"] = len(calls)

    # ---------------------------------------------------------------- shrinking
    def simplify(self, trace):
        steps = trace["steps"]
        for k, st in enumerate(steps):
            if st["op"] == "insert" and len(st["refs"]) > 1:
                for j in range(len(st["refs"])):
                    t = copy.deepcopy(trace)
                    del t["steps"][k]["refs"][j]
                    yield t
            if st["op"] == "insert" and st["form"] == "list" and len(st["refs"]) == 1:
                t = copy.deepcopy(trace)
                t["steps"][k]["form"] = "scalar"
                yield t
            if st["op"] == "build" and len(st["streams"]) > 1:
                for j in range(len(st["streams"])):
                    t = copy.deepcopy(trace)
                    del t["steps"][k]["streams"][j]
                    yield t
            if st["op"] == "synthetic":
                for name in list(st["curves"]):
                    if len(st["curves"]) > 1:
                        t = copy.deepcopy(trace)
                        del t["steps"][k]["curves"][name]
                        yield t
                if st["extras"]:
                    t = copy.deepcopy(trace)
                    t["steps"][k]["extras"] = {}
                    yield t
            if st["op"] == "pipeline":
                from worlds import problems

                for p in problems.simplify(st["problem"]):
                    t = copy.deepcopy(trace)
                    t["steps"][k]["problem"] = p
                    yield t

    def warnings(self, stats, tier):
        want = ["block_top", "block_middle", "block_bottom", "several_inserts_in_one_interval", "request_partly_filtered", "nan_column_present", "second_or_later_call", "duplicate_inside_request", "reissued_earlier_request"]
        return [f"probe {p} never hit" for p in want if not stats.get("probes", {}).get(p)]


WORLD = C08()
