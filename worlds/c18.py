"""C18 — solved heat-pump cycles obey the first and second laws.

World: 1-2 SimpleHeatPumpCycle objects driven by a generated history of solve /
build_stream_collection(cond | evap | both) / dtcont & dt_diff_max assignments /
metric reads / re-solve requests, interleaved between the objects.  The
thermodynamic clauses are state invariants evaluated after every step on every
solved object; order-independence is judged against the first answer given for
the same solved state.  Faults: natural solve failures only (no I/O here).
"""
from __future__ import annotations

import copy
import math

from sim import prng
from sim.engine import World

MAINSTREAM = ["Water", "Ammonia", "R134a", "n-Propane", "IsoButane", "CarbonDioxide", "R32", "R1234yf", "R1234ze(E)", "R245fa", "R22", "n-Butane", "R410A", "R407C", "R404A"]
_FLUIDS = None
_LIMITS = {}


def fluids():
    global _FLUIDS
    if _FLUIDS is None:
        import CoolProp.CoolProp as CP

        _FLUIDS = sorted(CP.FluidsList())
    return _FLUIDS


def limits(fluid):
    """(T_low, T_crit) in kelvin from independent high-level CoolProp calls; None if unavailable."""
    if fluid not in _LIMITS:
        import CoolProp.CoolProp as CP

        try:
            tc = CP.PropsSI("Tcrit", fluid)
            tt = CP.PropsSI("Ttriple", fluid)
            tm = CP.PropsSI("Tmin", fluid)
            _LIMITS[fluid] = (max(tt, tm), tc, CP.PropsSI("pcrit", fluid))
        except Exception:
            _LIMITS[fluid] = None
    return _LIMITS[fluid]


def is_blend(fluid):
    """Predefined refrigerant blends (R4xx / R5xx series and a few named mixtures): they have a temperature glide."""
    f = str(fluid).upper()
    return (f.startswith("R4") or f.startswith("R5") or f in ("AIR", "SES36")) and f not in ("R41",)


def rel(a, b, r, floor=0.0):
    return abs(a - b) <= r * max(abs(a), abs(b), floor)


class C18(World):
    pid = "C18"
    chunk = 25
    run_timeout = 20.0
    quick = dict(runs=12000, budget_s=55)
    thorough = dict(runs=2_000_000, budget_s=900)
    components_real = [
        "OpenPinch.classes.simple_heat_pump.SimpleHeatPumpCycle (solve, metrics, build_stream_collection, condenser/evaporator profiles)",
        "OpenPinch.classes.stream.Stream / StreamCollection (emitted stream sets)",
        "CoolProp low-level AbstractState inside the cycle object (real property library)",
        "OpenPinch.analysis.heat_pump_targeting._compute_multi_simple_hp_system_performance with _create_multi_simple_hp_list / _build_simulated_hps_streams / get_process_heat_cascade (the targeting pipeline's own use of the cycle class, on a generated two-point background profile)",
        "OpenPinch.analysis.heat_pump_targeting Carnot-style placement objectives (_get_optimal_min_evap_T_for_multi_temperature_carnot_hp, _compute_multi_temperature_carnot_hp_opt_obj, _compute_multi_simple_carnot_hp_opt_obj, _get_carnot_hp_streams) on generated background profiles",
    ]
    components_stub = []
    fault_kinds = ["solve_failure"]
    state_abstraction = "per cycle object (solved?, judged?, regime from independent property calls, last four stream-set requests)"
    rule = (
        "each run = one generated history (3-16 steps) on 1-2 cycle objects: solve(fluid, Te, Tc, dT_sh, dT_sc, eta, Q, ihx_gas_dt=0), "
        "build(cond) / build(evap) / build(both), dtcont / dt_diff_max assignment, metric reads, re-solve with new arguments, deliberately "
        "failing solves, cascade (the targeting pipeline's objective function evaluated on 1-3 generated cycles, optionally twice, with every solve / build_stream_collection call it makes monitored and judged like a direct one), carnot (the pipeline's Carnot-style placement objectives evaluated 2-3 times with the same argument objects on a generated background profile: first law, emitted latent streams, same answer, arguments untouched); fluids 70 % mainstream refrigerants, 30 % any CoolProp fluid; temperatures inside [max(Ttriple,Tmin)+5 K, Tcrit-10 K] "
        "with lift >= dT_sh + dT_sc + 2 K (+12 K for zeotropic blends).  distinct = distinct step list; non-trivial = >=1 successful solve followed by >=2 stream-set requests "
        "or a re-solve."
    )
    assumptions = [
        "only cycles whose public ihx_gas_dt is 0 are judged (property: 'without an internal heat exchanger'); others are counted as skipped",
        "a solve that raises is outside the property; it must leave the object unsolved or self-consistent",
        "saturation pressures are compared in the temperature domain (0.05 K) against independent PropsSI calls",
        "h_thr uses rel 1e-6 (property-library noise), energy balances rel 1e-9, emitted duties rel 1e-6",
        "evaporator saturation pressure >= 10 Pa (>= 1 kPa in 70 % of runs): below that the property library's own flashes disagree with each other",
        "cycles the independent property call cannot classify (no saturation state at the stored pressure) are counted, not judged",
    ]

    def setup_node(self):
        for fl in MAINSTREAM:  # warm the limits cache in the chunk process (property-library constants only)
            limits(fl)

    # ---------------------------------------------------------------- generation
    def generate(self, seed, run):
        S = prng.Streams(seed)
        sw, ops, args, sched = S("swarm"), S("ops"), S("args"), S("schedule")
        swarm = dict(
            objects=sw.choice([1, 1, 2]),
            length=sw.choice([3, 4, 6, 10, 16]),
            mainstream=sw.random() < 0.7,
            practical=sw.random() < 0.7,
            p_fail=sw.choice([0, 0, 0.1]),
            w_build=sw.choice([1, 3]),
            w_resolve=sw.choice([0, 1, 2]),
            w_cascade=sw.choice([0, 0.5, 1.5, 6]),
            w_carnot=sw.choice([0, 0, 0.5, 2]),
            unit_systems=[sw.choice(["EUR", "EUR", "SI", "KSI"]) for _ in range(2)],
        )
        if self.tier == "thorough" and sw.random() < 0.3:
            swarm["length"] = sw.choice([24, 40])

        def gen_solve(fl_override=None):
            fl = fl_override or (args.choice(MAINSTREAM) if swarm["mainstream"] else args.choice(fluids()))
            lim = limits(fl)
            if lim is None:
                fl = "R134a"
                lim = limits(fl)
            lo, tc, _ = lim
            lo, hi = lo + 5.0, tc - 10.0
            # pressure floor on the evaporator side (bisection on an independent call): 1 kPa in the
            # "practical" swarm configuration, 10 Pa otherwise (below that the property library's own
            # flashes disagree with each other by more than the tolerances used here)
            import CoolProp.CoolProp as CP

            floor = 1000.0 if swarm["practical"] else 10.0
            try:
                if CP.PropsSI("P", "T", lo, "Q", 1, fl) < floor:
                    a, b = lo, hi
                    for _ in range(30):
                        m = 0.5 * (a + b)
                        if CP.PropsSI("P", "T", m, "Q", 1, fl) < floor:
                            a = m
                        else:
                            b = m
                    lo = b
            except Exception:
                pass
            dsh = float(args.choice([0, 0, 2, 5, 10]))
            dsc = float(args.choice([0, 0, 2, 5, 10]))
            # lift: at least superheat + subcooling + 2 K (the evaporator outlet stays colder than the condenser outlet);
            # zeotropic blends need the lift to clear their temperature glide as well
            minlift = dsh + dsc + args.choice([2.0, 3.0, 5.0, 10.0, 25.0]) + (12.0 if is_blend(fl) else 0.0)
            if hi - lo <= minlift + 1.0:
                fl = "R134a"
                lo, tc, _ = limits(fl)
                lo, hi = lo + 5.0, tc - 10.0
            te = args.uniform(lo, max(lo, hi - minlift - 0.5))
            tcnd = args.uniform(min(te + minlift, hi), hi)
            if swarm["mainstream"] and args.random() < 0.25:
                # round everyday operating points (0 C, 5 C, ... as an engineer would type them)
                te_c, tc_c = float(args.choice([-10, 0, 0, 5, 10, 20])), float(args.choice([35, 40, 50, 60, 80]))
                if lo <= te_c + 273.15 and tc_c + 273.15 <= hi and tc_c - te_c >= minlift:
                    te, tcnd = te_c + 273.15, tc_c + 273.15
            try:
                ok_floor = CP.PropsSI("P", "T", te, "Q", 1, fl) >= floor * 0.999
            except Exception:
                ok_floor = False
            if not ok_floor:  # the floor could not be established for this fluid: fall back to a well-behaved one
                fl, te, tcnd = "R134a", 273.15 + args.uniform(-20, 10), 273.15 + args.uniform(40, 80)
            return dict(op="solve", ihx=(float(args.choice([5, 10, 40])) if args.random() < 0.12 else 0.0), refrigerant=fl, Te=round(te - 273.15, 2), Tc=round(tcnd - 273.15, 2), dT_sh=dsh, dT_sc=dsc, eta=float(args.choice([1.0, 0.9, 0.7, 0.7, 0.5, round(args.uniform(0.2, 1.0), 3)])), Q=args.choice([1.0, 100.0, 2500.0, 100, 7.25, 2.0e-5, 1.0e-3]))

        steps = []
        state_set = {}
        solved = [False] * swarm["objects"]
        for i in range(swarm["length"]):
            o = sched.randrange(swarm["objects"])
            if not solved[o]:
                if state_set.get(o) and args.random() < 0.6:
                    # right after `cycle.state = <fluid>`: solve with refrigerant=None, i.e. on the fluid just installed
                    st = gen_solve(fl_override=state_set[o])
                    st["refrigerant_none"] = True
                else:
                    st = gen_solve()
                state_set[o] = None
                solved[o] = True
            else:
                w = swarm["w_build"]
                cand = [("cascade", swarm["w_cascade"]), ("carnot", swarm["w_carnot"]), ("renew", 0.4), ("build_cond", 2 * w), ("build_evap", 2 * w), ("build_both", 1 * w), ("set_dtcont", 0.7), ("set_dtdiff", 0.3), ("set_system", 0.25), ("set_state", 0.3), ("read", 0.7), ("solve", 1.0 * swarm["w_resolve"]), ("solve_fail", 10 * swarm["p_fail"])]
                op = ops.choices([k for k, _ in cand], [x for _, x in cand])[0]
                if op == "solve" and args.random() < 0.4:
                    # re-solve the same operating point with ONE argument changed (resolved at execution from the object's last request)
                    st = dict(op="solve_variant", field=args.choice(["Q", "Q", "eta", "dT_sh", "dT_sc", "Te", "Tc", "refrigerant", "refrigerant"]), v=args.choice([0, 1, 2]))
                elif op == "solve":
                    st = gen_solve()
                    if args.random() < 0.15:
                        st["refrigerant_none"] = True  # re-solve on the same fluid object (refrigerant=None)
                elif op == "solve_fail":
                    st = gen_solve()
                    st["op"] = "solve_fail"
                    st["how"] = args.choice(["Te_above_Tc", "Tc_huge", "Te_below_min"])
                elif op == "cascade":
                    # the targeting pipeline's own use of the cycle class: n objects created, solved and asked for both stream sets
                    # inside _compute_multi_simple_hp_system_performance (called hundreds of times per optimisation with the same args)
                    n = args.choice([1, 2, 2, 3])
                    hps = []
                    for _ in range(n):
                        g = gen_solve()
                        nm = g["refrigerant"]
                        if args.random() < 0.5 and "(E)" not in nm:
                            nm = nm.upper()  # the pipeline upper-cases configured refrigerant names
                        hps.append(dict(refrigerant=nm, Te=g["Te"], Tc=g["Tc"], dT_sh=g["dT_sh"], dT_sc=g["dT_sc"], Q=float(g["Q"])))
                    st = dict(op=op, hps=hps, eta=float(args.choice([1.0, 0.9, 0.7, 0.7, 0.5])), dt_ihx=(5.0 if args.random() < 0.08 else 0.0), repeat=args.random() < 0.5)
                elif op == "carnot":
                    # the Carnot-style placement objectives of the targeting pipeline on a generated background profile
                    # (the property's second anchor: first-law bookkeeping of Carnot-style placements)
                    k = args.choice([2, 3, 5, 8])
                    Th = sorted((round(args.uniform(20, 150), 2) for _ in range(k)), reverse=True)
                    Tcd = sorted((round(args.uniform(40, 200), 2) for _ in range(k)), reverse=True)
                    dh = [args.choice([0.0, round(args.uniform(1, 500), 3), round(args.uniform(1, 500), 3)]) for _ in range(k - 1)]
                    dc = [args.choice([0.0, round(args.uniform(1, 500), 3), round(args.uniform(1, 500), 3)]) for _ in range(k - 1)]
                    if not any(dh):
                        dh[0] = 100.0
                    if not any(dc):
                        dc[-1] = 100.0
                    nc_ = args.choice([1, 2, 3])
                    kind = args.choice(["anchor", "multi_temperature", "multi_simple"])
                    ne_ = nc_ if kind == "multi_simple" else args.choice([1, 2, 3])
                    nx = (nc_ - 1 + ne_) if kind == "multi_simple" else (nc_ + ne_ - 1)
                    st = dict(op=op, kind=kind, T_hot=Th, T_cold=Tcd, dH_hot=dh, dH_cold=dc, n_cond=nc_, n_evap=ne_, x=[args.choice([0.0, 0.0003, round(args.uniform(0, 0.4), 4), round(args.uniform(0, 0.4), 4), round(args.uniform(0, 0.15), 4)]) for _ in range(nx)], T_lo=round(args.uniform(Th[-1] - 5, Th[0]), 2), price_ratio=args.choice([1.0, 2.0, 0.5]), repeats=args.choice([2, 3]))
                elif op == "renew":
                    st = dict(op=op)
                    solved[o] = False
                elif op == "set_dtcont":
                    st = dict(op=op, v=float(args.choice([0, 2.5, 5, 10])))
                elif op == "set_dtdiff":
                    st = dict(op=op, v=float(args.choice([0.1, 0.5, 2.0])))
                elif op == "set_system":
                    st = dict(op=op, v=args.choice(["SI", "KSI", "EUR"]))
                elif op == "set_state":
                    st = dict(op=op, v=args.choice(["Ammonia", "Water", "n-Propane", "R134a"]))
                    solved[o] = False
                    state_set[o] = st["v"]
                else:
                    st = dict(op=op)
            st["client"] = o
            steps.append(st)
        return dict(swarm=swarm, steps=steps)

    def nontrivial(self, trace):
        ops = [s["op"] for s in trace["steps"]]
        return ("solve" in ops and (sum(o.startswith("build") for o in ops) >= 2 or ops.count("solve") >= 2)) or "cascade" in ops or "carnot" in ops

    # ---------------------------------------------------------------- execution
    def execute(self, trace):
        import CoolProp.CoolProp as CP
        from OpenPinch.classes.simple_heat_pump import SimpleHeatPumpCycle

        n_obj = trace.get("swarm", {}).get("objects", 1)
        viol, log = [], []
        stats = dict(ops={}, pairs={}, probes={}, checks={}, faults={})
        states = set()
        seen_v = set()

        def probe(name, n=1):
            stats["probes"][name] = stats["probes"].get(name, 0) + n

        def tick(name):
            stats["checks"][name] = stats["checks"].get(name, 0) + 1

        def V(check, site, step, detail):
            if (check, site) in seen_v:
                return
            seen_v.add((check, site))
            viol.append(dict(check=check, site=site, step=step, detail=detail))

        usys = trace.get("swarm", {}).get("unit_systems") or ["EUR", "EUR"]
        objs = [SimpleHeatPumpCycle(usys[j % len(usys)]) for j in range(n_obj)]
        # per object: solved-state record kept by the simulator (reference model)
        M = [dict(solved=False, args=None, regime="", metrics=None, first={}, pattern=[], judged=False) for _ in range(n_obj)]

        def read_metrics(c):
            return dict(Q_cond=c.Q_cond, Q_evap=c.Q_evap, work=c.work, COP_h=c.COP_h, COP_r=c.COP_r, Hs=list(c.Hs), Ss=list(c.Ss), Ps=list(c.Ps), Ts=list(c.Ts))

        def regime_of(c, a):
            """Regime flags from independent high-level property calls (used in site keys)."""
            fl = a["refrigerant"]
            H, P = list(c.Hs), list(c.Ps)
            flags = []
            try:
                hv = CP.PropsSI("H", "P", P[1], "Q", 1, fl)
                if H[1] <= hv + 1e-9 * abs(hv) + 1e-6:
                    hl = CP.PropsSI("H", "P", P[1], "Q", 0, fl)
                    # at or inside the dome.  Two-phase discharge (between the saturated-liquid and -vapour enthalpies) is what
                    # the profile code has a guard for; a discharge at or below the saturated-LIQUID enthalpy is not a compression at all
                    flags.append("two_phase_discharge" if H[1] > hl + 1e-9 * abs(hl) + 1e-6 else "wet_discharge")
            except Exception:
                flags.append("no_sat_at_Pcond")
            try:
                hv0 = CP.PropsSI("H", "P", P[0], "Q", 1, fl)
                if H[3] >= hv0 - 1e-9 * abs(hv0) - 1e-6 or H[0] <= H[3]:
                    flags.append("dry_evap_inlet")  # throttle outlet already all vapour / no refrigeration effect
            except Exception:
                flags.append("no_sat_at_Pevap")
            lim = limits(fl)
            if lim and (a["Te"] + 273.15) - lim[0] < 30.0:
                probe("near_triple")
            if lim and P[1] >= lim[2]:
                probe("transcritical")
            return "+".join(flags) or "regular"

        def site(o, what):
            return f"{M[o]['regime']}|{what}"

        def has_glide(fl, p):
            """Zeotropic blend: dew and bubble temperatures differ at this pressure (then 'Tc - dT_sc' is not a well-defined state)."""
            try:
                return abs(CP.PropsSI("T", "P", p, "Q", 1, fl) - CP.PropsSI("T", "P", p, "Q", 0, fl)) > 0.01
            except Exception:
                return True

        def confirm(a, which, Sx):
            """Is an entropy decrease reproduced when the same process is recomputed from the REQUEST
            (not from the stored states) with independent high-level property calls?  Then it is an
            artefact of the property library's equation of state, not of OpenPinch's bookkeeping."""
            fl = a["refrigerant"]
            try:
                pe = CP.PropsSI("P", "T", a["Te"] + 273.15, "Q", 1, fl)
                pc = CP.PropsSI("P", "T", a["Tc"] + 273.15, "Q", 1, fl)
                if which == "thr":
                    if a["dT_sc"] > 0:
                        h2 = CP.PropsSI("H", "P", pc, "T", a["Tc"] + 273.15 - a["dT_sc"], fl)
                    else:
                        h2 = CP.PropsSI("H", "P", pc, "Q", 0, fl)
                    s_in = CP.PropsSI("S", "P", pc, "H", h2, fl)
                    s_out = CP.PropsSI("S", "P", pe, "H", h2, fl)
                    stored_in, stored_out = Sx[2], Sx[3]
                else:
                    if a["dT_sh"] > 0:
                        h0 = CP.PropsSI("H", "P", pe, "T", a["Te"] + 273.15 + a["dT_sh"], fl)
                    else:
                        h0 = CP.PropsSI("H", "P", pe, "Q", 1, fl)
                    s_in = CP.PropsSI("S", "P", pe, "H", h0, fl)
                    h1s = CP.PropsSI("H", "P", pc, "S", s_in, fl)
                    s_out = CP.PropsSI("S", "P", pc, "H", h0 + (h1s - h0) / a["eta"], fl)
                    stored_in, stored_out = Sx[0], Sx[1]
                agree = abs(stored_in - s_in) <= 1e-3 + 1e-6 * abs(s_in) and abs(stored_out - s_out) <= 1e-3 + 1e-6 * abs(s_out)
                return "library_confirms" if (s_out < s_in and agree) else None
            except Exception:
                return None

        def invariants(o, step):
            """State invariants on one solved, judged object."""
            c, m = objs[o], M[o]
            try:
                cur = read_metrics(c)
            except RuntimeError:
                V("metrics_stable", site(o, "unsolved"), step, f"object {o} reports itself unsolved although solve succeeded")
                return
            a = m["args"]
            H, Sx, P = cur["Hs"], cur["Ss"], cur["Ps"]
            s = site(o, "state")
            tick("first_law")
            if not rel(cur["Q_cond"], cur["Q_evap"] + cur["work"], 1e-9, 1e-12):
                V("first_law", s, step, f"Q_cond={cur['Q_cond']!r} Q_evap+work={cur['Q_evap'] + cur['work']!r}")
            tick("work_pos")
            if not cur["work"] > 0:
                V("work_pos", s, step, f"work={cur['work']!r}")
            tick("cop")
            if not rel(cur["COP_h"], cur["COP_r"] + 1.0, 1e-9):
                V("cop", s, step, f"COP_h={cur['COP_h']!r} COP_r+1={cur['COP_r'] + 1.0!r}")
            tick("s_comp")
            if not Sx[1] >= Sx[0] - (1e-4 + 1e-7 * abs(Sx[0])):
                V("s_comp", confirm(a, "comp", Sx) or s, step, f"entropy falls across the compressor: {Sx[0]!r} -> {Sx[1]!r}")
            tick("s_thr")
            if not Sx[3] >= Sx[2] - (1e-4 + 1e-7 * abs(Sx[2])):
                V("s_thr", confirm(a, "thr", Sx) or s, step, f"entropy falls across the valve: {Sx[2]!r} -> {Sx[3]!r}")
            tick("h_thr")
            if not abs(H[3] - H[2]) <= 1e-6 * max(1.0, abs(H[2]), abs(H[1] - H[2])):
                V("h_thr", s, step, f"throttling changes enthalpy: {H[2]!r} -> {H[3]!r}")
            tick("p_sat")
            try:
                def bracket(T, p):
                    w_ = 0.0005 if p >= 1000.0 else 0.05  # kelvin; below 1 kPa the library's own entry points scatter more
                    for q in (1, 0):
                        lo_ = CP.PropsSI("P", "T", T - w_, "Q", q, a["refrigerant"])
                        hi_ = CP.PropsSI("P", "T", T + w_, "Q", q, a["refrigerant"])
                        if lo_ * (1 - 1e-9) <= p <= hi_ * (1 + 1e-9):
                            return True
                    return False

                if not (bracket(a["Te"] + 273.15, P[0]) and bracket(a["Tc"] + 273.15, P[1])):
                    V("p_sat", s, step, f"pressures {P[0]!r}/{P[1]!r} are not the saturation pressures of {a['Te']}/{a['Tc']} C (independent call, +-0.0005 K above 1 kPa, +-0.05 K below)")
            except Exception:
                probe("p_sat_independent_call_failed")
            if m["regime"] == "regular":
                tick("state_points")
                Tk = cur["Ts"]
                if abs(P[0] - P[3]) > 1e-4 * P[0] or abs(P[1] - P[2]) > 1e-4 * P[1]:
                    V("state_points", s, step, f"pressures of the four state points are not two levels: {P!r}")
            tick("metrics_stable")
            if m["metrics"] is not None and cur != m["metrics"]:
                keys = [k for k in cur if cur[k] != m["metrics"][k]]
                V("metrics_stable", site(o, "after_" + (m["pattern"][-1] if m["pattern"] else "-")), step, f"metrics changed without a solve: {keys}")

        def judge_streams(o, step, kind, sc):
            c, m = objs[o], M[o]
            lst = [(s.name, s.t_supply, s.t_target, s.heat_flow, s.dt_cont, s.type) for s in sc._streams.values()] if hasattr(sc, "_streams") else [(s.name, s.t_supply, s.t_target, s.heat_flow, s.dt_cont, s.type) for s in sc]
            # which streams belong to the condenser set: by request for single-kind requests (names are not part of the
            # property); for a combined request by the name hint ("cond"/"evap"), else by the count learnt from an earlier
            # single-kind request on the same solved state, else the combined answer is not judged
            if kind == "c":
                cond, evap = lst, []
                m["n_cond"] = len(lst)
            elif kind == "e":
                cond, evap = [], lst
                m["n_evap"] = len(lst)
            else:
                hints = ["c" if "cond" in x[0].lower() else "e" if "evap" in x[0].lower() else "?" for x in lst]
                if "?" not in hints:
                    cond = [x for x, h in zip(lst, hints) if h == "c"]
                    evap = [x for x, h in zip(lst, hints) if h == "e"]
                elif m.get("n_cond") is not None and m.get("n_evap") is not None and m["n_cond"] + m["n_evap"] == len(lst):
                    cond, evap = lst[: m["n_cond"]], lst[m["n_cond"] :]
                else:
                    probe("combined_request_not_attributable")
                    return
            pat = "".join(m["pattern"])
            order = "evap_first" if pat.replace("b", "").startswith("e") or (kind == "e" and "c" not in pat and "b" not in pat) else "cond_first"
            for label, part, total, want in (("cond", cond, c.Q_cond, kind in "cb"), ("evap", evap, c.Q_evap, kind in "eb")):
                if not want:
                    if part:
                        V(label + "_duty", site(o, "unrequested"), step, f"{label} streams emitted although not requested")
                    continue
                s = site(o, "streams")
                tick(label + "_duty")
                tot = sum(x[3] for x in part)
                if not abs(tot - total) <= 1e-6 * max(abs(c.Q_cond), abs(total), 1e-12):
                    V(label + "_duty", s, step, f"{label} streams carry {tot!r}, cycle reports {total!r} ({len(part)} streams, history {pat!r})")
                tick("monotone_" + label)
                ok = True
                for x in part:
                    if (label == "cond" and not x[1] > x[2]) or (label == "evap" and not x[1] < x[2]):
                        ok = False
                    if x[3] < -1e-12:
                        ok = False
                for x, y in zip(part, part[1:]):
                    # contiguous and monotone from one stream to the next (0.011 K isothermal offset allowed)
                    if label == "cond" and not (y[1] <= x[1] + 1e-5 and abs(y[1] - x[2]) <= 0.011):
                        ok = False
                    if label == "evap" and not (y[1] >= x[1] - 1e-5 and abs(y[1] - x[2]) <= 0.011):
                        ok = False
                if not ok:
                    V("monotone_" + label, site(o, "streams"), step, f"{label} streams not monotone/contiguous: {[(round(x[1], 3), round(x[2], 3), x[3]) for x in part]}")
                if m["regime"] == "regular" and part:
                    tick("profile_ends")
                    Tk = list(c.Ts)
                    want_a, want_b = (Tk[1] - 273.15, Tk[2] - 273.15) if label == "cond" else (Tk[3] - 273.15, Tk[0] - 273.15)
                    if abs(part[0][1] - want_a) > 0.011 or abs(part[-1][2] - want_b) > 0.011:
                        V("profile_ends", site(o, label), step, f"{label} streams run {part[0][1]!r} -> {part[-1][2]!r} but the cycle's own state points are {want_a!r} -> {want_b!r}")
                tick("order_indep")
                key = (label, c.dtcont)
                sig = [(x[1], x[2], x[3]) for x in part]
                if key in m["first"]:
                    f = m["first"][key]
                    same = len(f) == len(sig) and all(rel(a1, b1, 1e-9, 1e-9) and rel(a2, b2, 1e-9, 1e-9) and rel(a3, b3, 1e-9, 1e-12) for (a1, a2, a3), (b1, b2, b3) in zip(f, sig))
                    if not same:
                        V("order_indep", site(o, order), step, f"{label} streams differ from the first answer for the same solved state (history {pat!r}): {sig[:2]} vs {f[:2]}")
                else:
                    m["first"][key] = sig
                tick("dtcont_propagated")
                if any(x[4] != c.dtcont for x in part):
                    V("dtcont_propagated", site(o, label), step, f"emitted streams carry dt_cont {[x[4] for x in part]} but the cycle's is {c.dtcont}")

        def adopt(c, m, a, judgeable):
            """Reference-model bookkeeping after a successful solve of cycle c with request a (domain, regime, first metrics)."""
            m.update(solved=True, args=a, first={}, pattern=[], metrics=None, n_cond=None, n_evap=None, fluid=a["refrigerant"])
            lim = limits(a["refrigerant"])
            in_domain = lim is not None and lim[0] + 5.0 - 0.011 <= a["Te"] + 273.15 and a["Tc"] + 273.15 <= lim[1] - 10.0 + 0.011 and a["Tc"] - a["Te"] >= a["dT_sh"] + a["dT_sc"] + 2.0 + (12.0 if is_blend(a["refrigerant"]) else 0.0) - 1e-9 and judgeable
            if in_domain:
                try:
                    in_domain = CP.PropsSI("P", "T", a["Te"] + 273.15, "Q", 1, a["refrigerant"]) >= 10.0 * 0.999
                except Exception:
                    in_domain = False
            m["judged"] = c.ihx_gas_dt == 0 and in_domain
            if not in_domain:
                probe("skipped_outside_domain")
                return "ok:skipped_domain"
            if not m["judged"]:
                probe("skipped_nonzero_ihx")
                return "ok:skipped_ihx"
            m["regime"] = regime_of(c, a)
            probe("regime:" + m["regime"])
            if "no_sat" in m["regime"]:
                m["judged"] = False  # the independent property call cannot classify this cycle: not judged
                probe("skipped_no_independent_oracle")
            m["metrics"] = read_metrics(c)
            return "ok:" + prng.digest([repr(x) for x in m["metrics"]["Hs"]])

        def run_cascade(step, st):
            """The targeting pipeline's own use of the cycle class, monitored: every object it solves and every stream set it
            asks for goes through the same state invariants and stream checks as a directly driven object, and the totals the
            pipeline reports are checked against the objects (first-law bookkeeping over the whole cascade)."""
            import numpy as np
            from OpenPinch.analysis import heat_pump_targeting as HPT
            from OpenPinch.lib.schema import HeatPumpTargetInputs

            hps = st["hps"]
            n = len(hps)
            del objs[n_obj:], M[n_obj:]  # objects of an earlier cascade are dropped (the optimiser drops them too)
            Tc = np.array([h["Tc"] for h in hps], dtype=float)
            Te = np.array([h["Te"] for h in hps], dtype=float)
            Q = np.array([h["Q"] for h in hps], dtype=float)
            T_cold = np.array([Tc.max() + 5.0, Tc.min() - 30.0])
            T_hot = np.array([Te.max() + 30.0, Te.min() - 5.0])
            H_cold = np.array([Q.sum(), 0.0])
            H_hot = np.array([0.0, -Q.sum()])
            rng_ = float(max(T_cold[0], T_hot[0]) - min(T_cold[-1], T_hot[-1]))
            try:
                nh, _ = HPT._create_net_hot_and_cold_stream_collections_for_background_profile(T_hot, np.abs(H_hot))
                _, nc = HPT._create_net_hot_and_cold_stream_collections_for_background_profile(T_cold, H_cold)
                hargs = HeatPumpTargetInputs(Q_hp_target=float(Q.sum()), Q_amb_max=0.0, T_hot=T_hot, H_hot=H_hot, T_cold=T_cold, H_cold=H_cold, dt_range_max=rng_, is_direct_integration=True, is_heat_pumping=True, n_cond=n, n_evap=n, eta_comp=st["eta"], eta_exp=0.7, eta_hp_carnot=0.5, eta_he_carnot=0.5, dtcont_hp=0.0, dt_hp_ihx=st.get("dt_ihx", 0.0), T_env=15.0, dt_env_cont=5.0, dt_phase_change=0.1, refrigerant_ls=[h["refrigerant"] for h in hps], price_ratio=1.0, max_multi_start=1, net_hot_streams=nh, net_cold_streams=nc)
            except Exception as e:  # background construction is not the subject here
                probe("cascade_background_not_constructible")
                return "skip:" + type(e).__name__
            x = np.concatenate([(T_cold[0] - Tc) / rng_, np.array([h["dT_sc"] for h in hps]) / rng_, Q / float(Q.sum()), (Te - T_hot[-1]) / rng_, np.array([h["dT_sh"] for h in hps]) / rng_])
            cls = SimpleHeatPumpCycle
            o_solve, o_build = cls.solve, cls.build_stream_collection
            answers = []
            for rep in range(2 if st.get("repeat") else 1):
                calls = []

                def solve(self, *a_, **k_):
                    r = o_solve(self, *a_, **k_)
                    try:  # the request as the method itself sees it, however the call site spells it (positional, keyword, defaults)
                        import inspect
                        ba = inspect.signature(o_solve).bind(self, *a_, **k_)
                        ba.apply_defaults()
                        seen = {k: v for k, v in ba.arguments.items() if k != "self"}
                    except TypeError:
                        seen = k_
                    calls.append(("solve", self, seen))
                    return r

                def build(self, *a_, **k_):
                    r = o_build(self, *a_, **k_)
                    calls.append(("build", self, k_, r))
                    return r

                cls.solve, cls.build_stream_collection = solve, build
                try:
                    res = HPT._compute_multi_simple_hp_system_performance(x, hargs)
                    err = None
                except Exception as e:
                    res, err = None, e
                finally:
                    cls.solve, cls.build_stream_collection = o_solve, o_build
                if err is not None:
                    stats["faults"]["solve_failure"] = stats["faults"].get("solve_failure", 0) + 1
                    probe("cascade_raised")
                    return "raise:" + type(err).__name__
                if "work_hp" not in res:
                    probe("cascade_rejected_by_lift_constraint")
                    return "ok:rejected"
                probe("cascade_evaluated")
                if rep == 1:
                    probe("cascade_evaluated_twice_with_the_same_arguments")
                del objs[n_obj:], M[n_obj:]
                index = {}
                for cl in calls:
                    if cl[0] == "solve":
                        k_ = cl[2]
                        try:
                            a = dict(refrigerant=str(k_["refrigerant"]), Te=float(k_["Te"]), Tc=float(k_["Tc"]), dT_sh=float(k_["dT_sh"]), dT_sc=float(k_["dT_sc"]), eta=float(k_["eta_comp"]), Q=float(k_["Q_h_total"]))
                        except Exception:
                            probe("cascade_solve_call_not_understood")  # the pipeline passes its request some other way: not judged
                            continue
                        objs.append(cl[1])
                        M.append(dict(solved=False, args=None, regime="", metrics=None, first={}, pattern=[], judged=False))
                        index[id(cl[1])] = len(objs) - 1
                        adopt(cl[1], M[-1], a, True)
                        if M[-1]["judged"]:
                            probe("cascade_object_judged")
                for cl in calls:
                    if cl[0] == "build" and id(cl[1]) in index:
                        j = index[id(cl[1])]
                        k_ = cl[2]
                        kind = "b" if k_.get("include_cond") and k_.get("include_evap") else "c" if k_.get("include_cond") else "e" if k_.get("include_evap") else None
                        if kind and M[j]["judged"]:
                            M[j]["pattern"].append(kind)
                            judge_streams(j, step, kind, cl[3])
                            probe("cascade_stream_set_judged")
                idx = list(index.values())
                if len(idx) == n and all(M[j]["judged"] and M[j]["regime"] == "regular" for j in idx):
                    # totals the pipeline reports versus the cycle objects it solved (all in the regular regime)
                    s_ = "regular|cascade"
                    qc = sum(objs[j].Q_cond for j in idx)
                    qe = sum(objs[j].Q_evap for j in idx)
                    wk = sum(objs[j].work for j in idx)
                    tick("cascade_first_law")
                    if not rel(float(np.sum(res["Q_cond"])), float(np.sum(res["Q_evap"])) + float(res["work_hp"]), 1e-9, 1e-12):
                        V("cascade_first_law", s_, step, f"pipeline totals: Q_cond {float(np.sum(res['Q_cond']))!r} != Q_evap {float(np.sum(res['Q_evap']))!r} + work {float(res['work_hp'])!r}")
                    if not (rel(float(res["work_hp"]), wk, 1e-9, 1e-12) and rel(float(np.sum(res["Q_evap"])), qe, 1e-9, 1e-12)):
                        V("cascade_first_law", s_, step, f"pipeline totals differ from the cycle objects: work {float(res['work_hp'])!r} vs {wk!r}, Q_evap {float(np.sum(res['Q_evap']))!r} vs {qe!r}")
                    tick("cascade_duty")
                    hot = sum(s.heat_flow for s in res["hp_hot_streams"])
                    cold = sum(s.heat_flow for s in res["hp_cold_streams"])
                    if not (abs(hot - qc) <= 1e-6 * max(abs(qc), 1e-12) and abs(cold - qe) <= 1e-6 * max(abs(qc), 1e-12)):
                        V("cascade_duty", s_, step, f"aggregated stream sets carry {hot!r} / {cold!r}, the cycles report {qc!r} / {qe!r}")
                sig = [[(repr(float(s.t_supply)), repr(float(s.t_target)), repr(float(s.heat_flow))) for s in res[k]] for k in ("hp_hot_streams", "hp_cold_streams")] + [repr(float(res["work_hp"]))]
                answers.append(sig)
            if len(answers) == 2:
                tick("cascade_repeat")
                if answers[0] != answers[1]:
                    V("cascade_repeat", "cascade", step, "the same cascade evaluated twice with the same arguments gave different stream sets / work")
            return "ok:" + prng.digest(answers[0])

        def run_carnot(step, st):
            """Carnot-style placements (the property's second anchor): the pipeline's objective functions are evaluated the way its
            optimisers evaluate them - again and again with the same argument objects - and judged on first-law bookkeeping
            (condenser duties = evaporator duties + work), on the emitted latent stream sets carrying exactly those duties, on
            giving the same answer every time, and on leaving the argument arrays they were handed untouched."""
            import numpy as np
            from OpenPinch.analysis import heat_pump_targeting as HPT
            from OpenPinch.lib.schema import HeatPumpTargetInputs

            T_hot, T_cold = np.array(st["T_hot"], dtype=float), np.array(st["T_cold"], dtype=float)
            H_hot = np.concatenate([[0.0], -np.cumsum(st["dH_hot"])])
            H_cold = np.concatenate([np.cumsum(st["dH_cold"][::-1])[::-1], [0.0]])
            if not (H_cold[0] > 0 and H_hot[-1] < 0):
                probe("carnot_empty_profile")
                return "skip:empty"
            rng_ = float(max(T_cold[0], T_hot[0]) - min(T_cold[-1], T_hot[-1]))
            try:
                hargs = HeatPumpTargetInputs(Q_hp_target=float(H_cold[0]), Q_amb_max=0.0, T_hot=T_hot, H_hot=H_hot, T_cold=T_cold, H_cold=H_cold, dt_range_max=rng_, is_direct_integration=True, is_heat_pumping=True, n_cond=st["n_cond"], n_evap=st["n_evap"], eta_comp=0.7, eta_exp=0.7, eta_hp_carnot=0.5, eta_he_carnot=0.5, dtcont_hp=0.0, dt_hp_ihx=0.0, T_env=15.0, dt_env_cont=5.0, dt_phase_change=0.1, refrigerant_ls=["R134a"], price_ratio=st["price_ratio"], max_multi_start=1)
            except Exception as e:
                probe("carnot_inputs_not_constructible")
                return "skip:" + type(e).__name__
            x = np.array(st["x"], dtype=float)
            kind = st["kind"]
            held = {}
            if kind == "anchor":
                x_cond, x_evap = HPT._parse_multi_temperature_carnot_hp_state_variables(x, st["n_cond"])
                T_cond = HPT._map_x_to_T_cond(x_cond, hargs.T_cold[0], hargs.dt_range_max)
                Q_cond = HPT._get_Q_vals_from_T_hp_vals(T_cond, hargs.T_cold, hargs.H_cold, True)
                held = dict(T_cond=T_cond, Q_cond=Q_cond, x_evap=x_evap)
                call = lambda: HPT._get_optimal_min_evap_T_for_multi_temperature_carnot_hp(st["T_lo"], [hargs, T_cond, Q_cond, x_evap, None])
            elif kind == "multi_temperature":
                call = lambda: HPT._compute_multi_temperature_carnot_hp_opt_obj(x, hargs)
            else:
                call = lambda: HPT._compute_multi_simple_carnot_hp_opt_obj(x, hargs)
            held.update(x=x, T_hot=hargs.T_hot, H_hot=hargs.H_hot, T_cold=hargs.T_cold, H_cold=hargs.H_cold)
            snap = lambda: {k_: np.array(v, dtype=float).tobytes() for k_, v in held.items()}
            before = snap()
            answers = []
            site = "carnot|" + kind
            for rep in range(int(st.get("repeats", 2))):
                try:
                    res = call()
                except Exception as e:
                    probe("carnot_raised")
                    return "raise:" + type(e).__name__
                if "work_hp" not in res:
                    probe("carnot_rejected")
                    return "ok:rejected"
                qc, qe, wk = float(np.sum(res["Q_cond"])), float(np.sum(res["Q_evap"])), float(res["work_hp"])
                scale = max(abs(qc), abs(qe), abs(wk), 1e-12)
                if not all(np.isfinite(v) for v in (qc, qe, wk)):
                    probe("carnot_non_finite")
                    return "ok:nonfinite"
                probe("carnot_evaluated")
                tick("carnot_first_law")
                if abs(qc - qe - wk) > 1e-9 * scale:
                    V("carnot_first_law", site, step, f"Carnot placement: condenser duties {qc!r} != evaporator duties {qe!r} + work {wk!r}")
                tick("carnot_inputs")
                if snap() != before:
                    changed = sorted(k_ for k_, v in snap().items() if v != before[k_])
                    V("carnot_inputs", site, step, f"evaluation {rep + 1} rewrote the argument arrays it was handed: {changed}")
                    before = snap()
                try:
                    ss = HPT._get_carnot_hp_streams(np.array(res["T_cond"], dtype=float), np.array(res["Q_cond"], dtype=float), np.array(res["T_evap"], dtype=float), np.array(res["Q_evap"], dtype=float), hargs)
                    hot = sum(s_.heat_flow for s_ in ss["hp_hot_streams"])
                    cold = sum(s_.heat_flow for s_ in ss["hp_cold_streams"])
                    tick("carnot_duty")
                    if abs(hot - qc) > 1e-9 * scale or abs(cold - qe) > 1e-9 * scale:
                        V("carnot_duty", site, step, f"latent stream sets carry {hot!r} / {cold!r}, the placement reports {qc!r} / {qe!r}")
                except Exception:
                    probe("carnot_streams_raised")
                answers.append([[repr(float(v)) for v in np.ravel(res[k_])] for k_ in ("T_cond", "Q_cond", "T_evap", "Q_evap")] + [repr(wk)])
            tick("carnot_repeat")
            if any(a_ != answers[0] for a_ in answers[1:]):
                V("carnot_repeat", site, step, "the same placement evaluated again with the same argument objects gave another answer")
            return "ok:" + prng.digest(answers[0])

        prev_op = None
        for step, st in enumerate(trace["steps"]):
            op = st["op"]
            o = st.get("client", 0) % n_obj
            c, m = objs[o], M[o]
            stats["ops"][op] = stats["ops"].get(op, 0) + 1
            if prev_op:
                stats["pairs"][prev_op + ">" + op] = stats["pairs"].get(prev_op + ">" + op, 0) + 1
            prev_op = op
            outcome = None
            others_before = {j: (read_metrics(objs[j]) if M[j]["solved"] and M[j]["judged"] else None) for j in range(len(objs)) if j != o}
            if op == "solve_variant" and not (m["solved"] and m["args"]):
                outcome = "skip"
            elif op in ("solve", "solve_fail", "solve_variant"):
                if op == "solve_variant":
                    a = dict(m["args"])
                    f, k = st["field"], st["v"]
                    if f == "Q":
                        a["Q"] = [250.0, 1.0, 37.5][k] if a["Q"] != [250.0, 1.0, 37.5][k] else 10.0
                    elif f == "eta":
                        a["eta"] = [0.6, 0.85, 1.0][k] if a["eta"] != [0.6, 0.85, 1.0][k] else 0.75
                    elif f == "refrigerant":
                        # same temperatures, another fluid on the same object
                        pool = [x for x in ["Ammonia", "R134a", "n-Propane", "IsoButane", "R32", "Water", "R1234yf"] if x != a["refrigerant"]]
                        a["refrigerant"] = pool[k % len(pool)]
                    elif f in ("dT_sh", "dT_sc"):
                        a[f] = [0.0, 2.0, 5.0][k] if a[f] != [0.0, 2.0, 5.0][k] else 3.0
                    else:
                        a[f] = round(a[f] + [-1.0, 0.004, -0.003][k] * (1 if f == "Tc" else -1), 4)  # incl. moves far below any rounding a cache key might apply
                    st = dict(st, refrigerant=a["refrigerant"])
                    probe("re_solve_one_argument_changed")
                else:
                    a = dict(refrigerant=st["refrigerant"], Te=st["Te"], Tc=st["Tc"], dT_sh=st["dT_sh"], dT_sc=st["dT_sc"], eta=st["eta"], Q=st["Q"])
                if op == "solve_fail":
                    lim = limits(a["refrigerant"])
                    if st["how"] == "Te_above_Tc":
                        a["Te"], a["Tc"] = a["Tc"], a["Te"]
                    elif st["how"] == "Tc_huge":
                        a["Tc"] = round(lim[1] - 273.15 + 5000.0, 2)
                    else:
                        a["Te"] = round(lim[0] - 273.15 - 40.0, 2)
                ref = a["refrigerant"]
                if st.get("refrigerant_none") and m.get("fluid"):
                    ref = None
                    a["refrigerant"] = m["fluid"]  # the fluid currently installed on the object (last solve or `state` assignment)
                    probe("resolve_with_refrigerant_none")
                was = m["solved"]
                try:
                    c.solve(Te=a["Te"], Tc=a["Tc"], dT_sh=a["dT_sh"], dT_sc=a["dT_sc"], eta_comp=a["eta"], refrigerant=ref, ihx_gas_dt=float(st.get("ihx") or 0.0) if op == "solve" else 0.0, Q_h_total=a["Q"])
                    ok = True
                except Exception as e:
                    ok = False
                    outcome = "raise:" + type(e).__name__
                    stats["faults"]["solve_failure"] = stats["faults"].get("solve_failure", 0) + 1
                if ok:
                    if was:
                        probe("re_solve")
                    outcome = adopt(c, m, a, op in ("solve", "solve_variant"))
                else:
                    if ref is not None:
                        m["fluid"] = ref  # the working fluid is installed before anything can fail
                    # a failed solve must leave the object unsolved or self-consistent
                    try:
                        cur = read_metrics(c)
                        still = True
                    except (RuntimeError, TypeError, AttributeError):
                        still = False
                    if still and was and m["judged"]:
                        tick("after_failed_solve")
                        probe("failed_solve_object_still_solved")
                        if cur != m["metrics"]:
                            V("after_failed_solve", f"{m['regime']}|{st.get('how', 'natural')}", step, "a failed solve left the object 'solved' with metrics that belong to no single cycle")
                            m["solved"] = False
                    elif not still:
                        m["solved"] = False
                        probe("failed_solve_leaves_unsolved")
            elif op == "cascade":
                outcome = run_cascade(step, st)
            elif op == "carnot":
                outcome = run_carnot(step, st)
            elif op == "renew":
                # a new cycle object constructed while others are already solved (as the targeting code does)
                objs[o] = c = SimpleHeatPumpCycle(usys[(o + 1) % len(usys)])
                M[o] = m = dict(solved=False, args=None, regime="", metrics=None, first={}, pattern=[], judged=False)
                probe("object_constructed_after_a_solve")
                outcome = "ok"
            elif not m["solved"]:
                outcome = "skip"
            elif op.startswith("build"):
                kind = dict(build_cond="c", build_evap="e", build_both="b")[op]
                try:
                    sc = c.build_stream_collection(include_cond=kind in "cb", include_evap=kind in "eb")
                    if m["judged"]:
                        m["pattern"].append(kind)
                        judge_streams(o, step, kind, sc)
                    outcome = "ok:" + str(len(sc))
                    if len(m["pattern"]) >= 2 and m["pattern"][0] == "e":
                        probe("evap_requested_before_cond")
                except Exception as e:
                    outcome = "raise:" + type(e).__name__
                    if m["judged"]:
                        V("build_raises", site(o, kind), step, f"build_stream_collection raised {type(e).__name__}: {str(e)[:120]}")
            elif op == "set_dtcont":
                c.dtcont = st["v"]
                outcome = "ok"
            elif op == "set_dtdiff":
                c.dt_diff_max = st["v"]
                outcome = "ok"
            elif op == "set_state":
                # the public `state` setter installs another working fluid and invalidates the solution;
                # the next solve(refrigerant=...) must still use the fluid it is told to use
                try:
                    c.state = st["v"]
                    outcome = "ok"
                except Exception as e:
                    outcome = "raise:" + type(e).__name__
                m.update(solved=False, metrics=None, first={}, pattern=[], judged=False)
                if outcome == "ok":
                    m["fluid"] = st["v"]
                probe("state_assigned_between_solves")
            elif op == "set_system":
                c.system = st["v"]  # plotting unit system: must not touch the solved state
                probe("unit_system_switched_after_solve")
                outcome = "ok"
            elif op == "read":
                # the whole read-only public surface; none of it may change what the object reports afterwards
                for nm in ("system", "state", "cycle_states", "states", "state_points", "Hs", "Ss", "Ts", "Ps", "q_evap", "Q_evap", "Q_cond", "w_net", "work", "dtcont", "COP_h", "COP_r", "dt_diff_max", "refrigerant", "T_evap", "T_cond", "dT_superheat", "dT_subcool", "eta_comp", "ihx_gas_dt"):
                    try:
                        getattr(c, nm)
                    except Exception as e:
                        log.append(("read_exc", nm, type(e).__name__))
                probe("public_surface_read")
                outcome = "ok"
            # ---- invariants on every solved judged object after every step
            for j in range(len(objs)):
                if M[j]["solved"] and M[j]["judged"]:
                    invariants(j, step)
            for j, before in others_before.items():
                if j >= n_obj and op == "cascade":
                    continue  # a cascade replaces the pipeline's own objects
                if before is not None and M[j]["solved"] and M[j]["judged"]:
                    tick("object_indep")
                    if read_metrics(objs[j]) != before:
                        V("object_indep", f"{M[j]['regime']}|{op}", step, f"operation {op} on object {o} changed object {j}")
            log.append([o, op, outcome])
            states.add(prng.digest([[(mm["solved"], mm["judged"], mm["regime"], "".join(mm["pattern"][-4:])) for mm in M]]))
            if len(viol) >= 8:
                break
        return dict(violations=viol[:8], digest=prng.digest(log), steps=len(log), stats=stats, states=sorted(states), interleaving=prng.digest([s.get("client", 0) for s in trace["steps"]]) if n_obj > 1 else None, sim_time=0.0)

    # ---------------------------------------------------------------- shrinking
    def simplify(self, trace):
        for k, st in enumerate(trace["steps"]):
            if st["op"] in ("solve", "solve_fail"):
                for fld, simple in (("dT_sh", 0.0), ("dT_sc", 0.0), ("eta", 1.0), ("Q", 1.0)):
                    if st[fld] != simple:
                        t = copy.deepcopy(trace)
                        t["steps"][k][fld] = simple
                        yield t
                for fld in ("Te", "Tc"):
                    if st[fld] != round(st[fld]):
                        t = copy.deepcopy(trace)
                        t["steps"][k][fld] = float(round(st[fld]))
                        yield t
            if st.get("client"):
                t = copy.deepcopy(trace)
                t["steps"][k]["client"] = 0
                yield t

    def warnings(self, stats, tier):
        out = []
        for p in ("re_solve", "evap_requested_before_cond", "regime:regular"):
            if not stats.get("probes", {}).get(p):
                out.append(f"probe {p} never hit")
        return out


WORLD = C18()
