"""C19 — Stream / StreamCollection objects stay consistent under any use.

World: a pool of Stream objects and StreamCollection objects driven by a
generated history of setter / mutator / query calls issued by 1-2 simulated
clients (call-granularity interleaving; the objects are shared between clients,
which is where aliasing comes from).  Oracle: the stated equations on the
public attributes of every live stream, and an insertion-ordered key->identity
reference model of every collection, both evaluated after every step.
Fault set: empty (no I/O, clock or concurrency exists on this surface).
"""
from __future__ import annotations

import math
import os

import numpy as np

from sim import prng
from sim.engine import World

NAMES = ["A", "B", "A_1", "H1", "A_1_1", "B_1", "A_2", "c", "", "A "]
ATTRS = ["t_supply", "t_target", "heat_flow", "dt_cont", "htc"]
SORT_ATTRS = ["t_supply", "t_target", "heat_flow", "dt_cont", "name", "t_min", "t_max", "CP", "t_min_star", "t_max_star", "htc"]
def _dirn(s):
    if s.t_supply is None or s.t_target is None:
        return 0
    return int(bool(s.t_supply > s.t_target)) - int(bool(s.t_supply < s.t_target))


def _fragile(s):
    if s.dt_cont == 10:
        raise RuntimeError("no key for this member")
    return s.t_supply


CALLABLES = {
    "fragile": _fragile,
    "neg_t_supply": lambda s: -s.t_supply,
    "span": lambda s: s.t_max - s.t_min,
    "name_len": lambda s: (len(s.name), s.name),
    "const": lambda s: 0,
}
MUTATORS = {"add", "add_many", "remove", "replace", "sort_key", "concat", "new_coll", "batch_fail"}
MAX_STREAMS, MAX_COLLS = 6, 3


def _temp(r, nice):
    if nice:
        return float(r.choice([20, 50, 80, 100, 100, 120, 150, 200, 250, -10, 0]))
    return round(r.uniform(-50, 400), r.choice([0, 1, 3, 9]))


def _duty(r, nice, swarm):
    x = r.random()
    if x < swarm["p_zero_duty"]:
        return 0.0 if r.random() < 0.7 else -0.0
    if x < swarm["p_zero_duty"] + swarm["p_neg_duty"]:
        return -float(r.choice([1, 10, 250]))
    return float(r.choice([1, 10, 100, 1000, 2500])) if nice else round(r.uniform(0.01, 5000), r.choice([0, 2, 6]))


def _value(r, attr, nice, swarm, cur=None):
    if attr in ("t_supply", "t_target"):
        return _temp(r, nice)
    if attr == "heat_flow":
        return _duty(r, nice, swarm)
    if attr == "dt_cont":
        return float(r.choice([0, 0, 2.5, 5, 10, 20])) if nice else round(r.uniform(0, 30), 2)
    if attr == "htc":
        if r.random() < swarm.get("p_neg_htc", 0):
            return -float(r.choice([0.5, 2, 4]))  # physically meaningless but assignable: htr must still be the reciprocal
        if r.random() < 0.15:
            return r.choice([1, 2, 5])  # a Python int
        return float(r.choice([0.1, 0.5, 1, 2, 10])) if nice else round(r.uniform(0.01, 20), 3)
    raise AssertionError(attr)


class C19(World):
    pid = "C19"
    chunk = 100
    run_timeout = 5.0
    quick = dict(runs=60000, budget_s=45)
    thorough = dict(runs=3_000_000, budget_s=900)
    components_real = ["OpenPinch.classes.stream.Stream", "OpenPinch.classes.stream_collection.StreamCollection"]
    components_stub = []
    fault_kinds = ["batch_failed_after_none", "batch_failed_after_some", "setter_raised"]
    state_abstraction = "per stream (kind, sign of t_supply - t_target or 'incomplete', sign of duty) and per collection (size, stale flag, sort-key kind, direction, number of renamed keys)"
    rule = (
        "each run = one generated history (3-30 steps) of constructor/setter calls on a pool of <=6 Stream objects and "
        "add/add_many/remove/replace/set_sort_key/concatenate/query calls on <=3 StreamCollection objects, issued by 1-2 "
        "interleaved simulated clients sharing the objects; distinct = distinct step list (hash); non-trivial = >=2 steps of "
        "which >=1 mutates an existing stream or a collection.  Fault set is empty for this property (no I/O, clock or "
        "concurrency on this surface): the explored dimension is the call history and aliasing."
    )
    assumptions = [
        "only the five input attributes (t_supply, t_target, heat_flow, dt_cont, htc) are assigned; htc != 0 (negative values at low weight)",
        "constructor/setter calls that raise are recorded, not judged, unless they leave an object violating an invariant",
        "interleaving is at call granularity (single-threaded library)",
    ]

    # ------------------------------------------------------------------ generation
    def generate(self, seed, run):
        S = prng.Streams(seed)
        sw, ops, args, sched = S("swarm"), S("ops"), S("args"), S("schedule")
        swarm = dict(
            clients=sw.choice([1, 1, 2]),
            length=sw.choice([3, 5, 8, 12, 20, 30]),
            nice=sw.random() < 0.7,
            p_zero_duty=sw.choice([0, 0, 0.02, 0.1]),
            p_neg_duty=sw.choice([0, 0, 0, 0.05]),
            p_neg_htc=sw.choice([0, 0, 0.08]),
            p_incomplete=sw.choice([0, 0, 0.15]),
            p_numpy=sw.choice([0, 0, 0.2]),
            w_stream=sw.choice([0, 1, 3]),
            w_coll=sw.choice([0, 1, 3]),
            w_batch_fail=sw.choice([0, 0, 0.4, 1.5]),
            names=sw.choice([2, 4, len(NAMES)]),
            flip=sw.random() < 0.5,
            equal_t=sw.choice([0, 0, 0.05, 0.2]),
        )
        if os.environ.get("C19_DEGEN"):  # development knob: bias towards zero-span / zero-duty states
            swarm.update(p_zero_duty=0.3, equal_t=0.3, w_stream=3)
        if self.tier == "thorough" and sw.random() < 0.25:
            swarm["length"] = sw.choice([50, 100])
        if swarm["w_stream"] == 0 and swarm["w_coll"] == 0:
            swarm["w_stream"] = swarm["w_coll"] = 1
        nice = swarm["nice"]
        names = NAMES[: swarm["names"]]
        steps = []
        n_s = n_c = 0  # slots allocated so far (generator's own bookkeeping; refs are resolved modulo at execution)

        def new_stream():
            ts = _temp(args, nice)
            tt = ts if args.random() < swarm["equal_t"] else _temp(args, nice)
            if args.random() < swarm["p_incomplete"]:
                # created without (all of) its temperatures; the setters fill them in later
                which = args.choice(["t_supply", "t_target", "both"])
                kw = dict(name=args.choice(names), t_supply=None if which != "t_target" else ts, t_target=None if which != "t_supply" else tt, heat_flow=_duty(args, nice, swarm), dt_cont=_value(args, "dt_cont", nice, swarm), htc=abs(_value(args, "htc", nice, swarm)))
                return dict(op="new_stream", kw=kw)
            kw = dict(name=args.choice(names), t_supply=ts, t_target=tt, heat_flow=_duty(args, nice, swarm), dt_cont=_value(args, "dt_cont", nice, swarm), htc=_value(args, "htc", nice, swarm))
            return dict(op="new_stream", kw=kw)

        for _ in range(swarm["length"]):
            client = sched.randrange(swarm["clients"])
            choices = [("new_stream", 2 if n_s < MAX_STREAMS else 0.3)]
            if n_s:
                choices += [("set", 4 * swarm["w_stream"]), ("set_heat_flow", 1 * swarm["w_stream"]), ("set_other", 0.6 * swarm["w_stream"])]
            choices += [("new_coll", 1.5 if n_c < MAX_COLLS else 0.1)]
            if n_c and n_s:
                w = swarm["w_coll"]
                choices += [("add", 4 * w), ("add_many", 1.5 * w), ("remove", 1.5 * w), ("replace", 0.5 * w), ("sort_key", 2 * w), ("concat", 1 * w), ("query", 1 * w), ("batch_fail", swarm.get("w_batch_fail", 0) * w)]
            op = ops.choices([c[0] for c in choices], [c[1] for c in choices])[0]
            if op == "new_stream":
                st = new_stream()
                n_s = min(n_s + 1, MAX_STREAMS)
            elif op == "set":
                attr = args.choice(ATTRS)
                st = dict(op="set", s=args.randrange(64), attr=attr, v=_value(args, attr, nice, swarm))
                if attr in ("t_supply", "t_target", "htc") and args.random() < swarm["p_numpy"] and float(st["v"]).is_integer() and st["v"] > 0:
                    st["np"] = args.choice(["int64", "int32", "float64"])  # a NumPy scalar, as produced by arr.max() or a DataFrame cell
                if attr in ("t_supply", "t_target") and not swarm["flip"]:
                    st["keep_dir"] = True  # resolved at execution: value is mirrored so that the direction is kept
            elif op == "set_other":
                # the other public setters of a stream: none of them may disturb the four stated relations
                attr = args.choice(["price", "name", "active", "is_process_stream", "P_supply", "P_target", "h_supply", "h_target"])
                val = {"price": args.choice([0.0, 10.0, 250.5]), "name": args.choice(names), "active": args.random() < 0.5, "is_process_stream": args.random() < 0.5}.get(attr, args.choice([101.3, 500.0, None]))
                st = dict(op="set_other", s=args.randrange(64), attr=attr, v=val)
            elif op == "set_heat_flow":
                st = dict(op="set_heat_flow", s=args.randrange(64), v=_duty(args, nice, swarm), units=args.choice([False, False, "kW", "MW", "W"]))
            elif op == "new_coll":
                st = dict(op="new_coll")
                n_c = min(n_c + 1, MAX_COLLS)
            elif op == "add":
                st = dict(op="add", c=args.randrange(64), s=args.randrange(64), key=args.choice([None, None, None] + names), po=args.random() < 0.85)
            elif op == "add_many":
                k = args.randrange(0, 4)
                ss = [args.randrange(64) for _ in range(k)]
                keys = None if args.random() < 0.6 else [args.choice(names) for _ in range(k if args.random() < 0.9 else k + 1)]
                st = dict(op="add_many", c=args.randrange(64), ss=ss, keys=keys, po=args.random() < 0.85)
            elif op == "remove":
                st = dict(op="remove", c=args.randrange(64), key={"ref": args.randrange(64)} if args.random() < 0.85 else args.choice(names))
            elif op == "replace":
                st = dict(op="replace", c=args.randrange(64), ss=[args.randrange(64) for _ in range(args.randrange(0, 4))])
            elif op == "batch_fail":
                # a batch operation that fails part-way (the fault of this surface): a None among the streams, an unhashable
                # key, or a source generator that raises after yielding `pos` valid streams
                k = args.randrange(1, 4)
                st = dict(op="batch_fail", c=args.randrange(64), ss=[args.randrange(64) for _ in range(k)], how=args.choice(["add_many_none", "add_many_gen", "add_many_badkey", "replace_none"]),
                          pos=args.randrange(0, k + 1), po=args.random() < 0.85)
            elif op == "sort_key":
                kind = args.choice(["attr", "attr", "list", "callable"])
                if kind == "attr":
                    spec = args.choice(SORT_ATTRS)
                elif kind == "list":
                    spec = [args.choice(SORT_ATTRS) for _ in range(args.choice([1, 2, 2, 3]))]
                else:
                    spec = args.choice(sorted(CALLABLES))
                st = dict(op="sort_key", c=args.randrange(64), kind=kind, spec=spec, reverse=args.random() < 0.5)
            elif op == "concat":
                st = dict(op="concat", a=args.randrange(64), b=args.randrange(64), dst=args.randrange(MAX_COLLS + 1))
            else:
                st = dict(op="query", c=args.randrange(64), i=args.randrange(-8, 9), key=args.choice(names))
            st["client"] = client
            if op in MUTATORS and op != "new_coll":
                # which observation is made first after the mutator (the lazy cache is clean after any one of them)
                st["obs"] = [args.choice(["iter", "getitem", "get_index"]), args.randrange(-8, 9)]
                st["open_iter"] = args.random() < 0.2  # an iteration is in progress (one item consumed) when the mutator is called
            steps.append(st)
        return dict(swarm=swarm, steps=steps)

    def nontrivial(self, trace):
        ops = [s["op"] for s in trace["steps"]]
        return len(ops) >= 2 and any(o in ("set", "set_heat_flow") or (o in MUTATORS and o != "new_coll") for o in ops)

    # ------------------------------------------------------------------ execution
    def execute(self, trace):
        from OpenPinch.classes.stream import Stream
        from OpenPinch.classes.stream_collection import StreamCollection

        streams: list = []  # Stream objects (pool)
        flags: list[dict] = []  # per stream: history flags for site keys
        colls: list = []  # StreamCollection objects
        models: list[list] = []  # per collection: list of [key, stream_pool_index]  (insertion ordered, dict semantics)
        cmeta: list[dict] = []  # per collection: sort spec + staleness bookkeeping
        viol, log = [], []
        stats = dict(ops={}, pairs={}, probes={}, checks={}, faults={})
        states = set()
        prev_op = None

        def probe(name):
            stats["probes"][name] = stats["probes"].get(name, 0) + 1

        def tick(name):
            stats["checks"][name] = stats["checks"].get(name, 0) + 1

        seen_v = set()
        dead_colls = set()

        def V(check, site, step, detail, obj=None):
            if (check, site, obj) in seen_v:
                return  # the same broken invariant on the same object is reported once per run
            seen_v.add((check, site, obj))
            viol.append(dict(check=check, site=site, step=step, detail=detail))

        def keyfn(meta):
            kind, spec = meta["kind"], meta["spec"]
            if kind == "default":
                return lambda s: s.t_supply
            if kind == "attr":
                return lambda s: getattr(s, spec)
            if kind == "list":
                return lambda s: tuple(getattr(s, a) for a in spec)
            return CALLABLES[spec]

        def sort_attrs(meta):
            kind, spec = meta["kind"], meta["spec"]
            if kind == "default":
                return {"t_supply"}
            if kind == "attr":
                return {spec}
            if kind == "list":
                return set(spec)
            return {"neg_t_supply": {"t_supply"}, "span": {"t_min", "t_max"}, "name_len": {"name"}, "const": set(), "fragile": {"t_supply", "dt_cont"}}[spec]

        def model_add(m, key, si, po):
            orig, counter = key, 1
            keys = {k for k, _ in m}
            while po and key in keys:
                key = f"{orig}_{counter}"
                counter += 1
            if key != orig:
                probe("clash_renamed")
            for e in m:
                if e[0] == key:
                    e[1] = si  # prevent_overwrite=False: documented replacement, position kept (dict semantics)
                    probe("overwrite_allowed")
                    return
            m.append([key, si])

        def check_stream(i, step, last_op):
            s, fl = streams[i], flags[i]
            if s.t_supply is None or s.t_target is None:
                # not a stream yet: the temperature clauses have nothing to judge until both temperatures are set, but
                # "resistance is the reciprocal of the film coefficient" needs no temperature (defect 33b5625)
                htc, htr = s.htc, s.htr
                if isinstance(htc, (int, float)) and not isinstance(htc, bool) and htc != 0:
                    tick("htr")
                    probe("htr_on_incomplete")
                    if not (isinstance(htr, (int, float)) and math.isclose(htr * htc, 1.0, rel_tol=1e-12)):
                        V("htr", f"{last_op}|incomplete", step, f"incomplete stream {i}: htc={htc!r} htr={htr!r}", ("s", i))
                return
            if fl.get("incomplete"):
                fl["incomplete"] = False
                probe("incomplete_stream_completed")
            try:
                hf, cp, tmin, tmax = s.heat_flow, s.CP, s.t_min, s.t_max
                tmins, tmaxs, dt, htc, htr, typ = s.t_min_star, s.t_max_star, s.dt_cont, s.htc, s.htr, s.type
                ts, tt = s.t_supply, s.t_target
            except AttributeError as e:
                if fl.get("degenerate") or (s.t_supply == s.t_target and s.heat_flow == 0):
                    # zero span and zero duty from the moment it became complete: the same "no stream at all" case for which
                    # the constructor raises; recorded, not judged
                    fl["degenerate"] = True
                    probe("degenerate_from_birth")
                    return
                V("stream_attrs", f"{last_op}|missing", step, f"stream {i}: {e}", ("s", i))
                return
            if ts == tt and hf == 0:
                fl["degenerate"] = True  # zero span and zero duty at once: "no stream at all"
                probe("degenerate_state")
            if fl.get("degenerate"):
                site = "degenerate"  # degenerate now or since the last full recomputation of the derived attributes
            else:
                of = "|".join(k for k in ("flipped", "zero_span", "zero_duty", "neg_duty") if fl.get(k)) or "plain"
                site = f"{last_op}|{of}"
            tick("cp_span")
            if not math.isclose(cp * (tmax - tmin), hf, rel_tol=1e-12, abs_tol=1e-12 * max(1.0, abs(hf))):
                V("cp_span", site, step, f"stream {i}: CP*(t_max-t_min)={cp * (tmax - tmin)!r} heat_flow={hf!r}", ("s", i))
            tick("min_le_max")
            if not tmin <= tmax:
                V("min_le_max", site, step, f"stream {i}: t_min={tmin!r} t_max={tmax!r}", ("s", i))
            tick("bounds")
            if ts != tt and (tmin, tmax) != (min(ts, tt), max(ts, tt)):
                V("bounds", site, step, f"stream {i}: (t_min,t_max)=({tmin!r},{tmax!r}) but supply/target=({ts!r},{tt!r})", ("s", i))
            tick("shift")
            if typ == "Hot":
                exp = (tmin - dt, tmax - dt)
            elif typ == "Cold":
                exp = (tmin + dt, tmax + dt)
            else:
                exp = None
            if exp is None:
                V("shift", site, step, f"stream {i}: type={typ!r}", ("s", i))
            elif not (math.isclose(tmins, exp[0], rel_tol=1e-12, abs_tol=1e-12) and math.isclose(tmaxs, exp[1], rel_tol=1e-12, abs_tol=1e-12)):
                V("shift", site, step, f"stream {i}: type={typ} dt_cont={dt!r} bounds=({tmin!r},{tmax!r}) shifted=({tmins!r},{tmaxs!r})", ("s", i))
            tick("kind")
            if ts != tt and typ != ("Hot" if ts > tt else "Cold"):
                V("kind", site, step, f"stream {i}: type={typ} but t_supply={ts!r} t_target={tt!r}", ("s", i))
            tick("htr")
            if not math.isclose(htr * htc, 1.0, rel_tol=1e-12):
                V("htr", site, step, f"stream {i}: htc={htc!r} htr={htr!r}", ("s", i))

        def check_coll(j, step, last_op):
            if j in dead_colls:
                return
            c, m, meta = colls[j], models[j], cmeta[j]
            site = "member_mutated" if meta["stale"] else f"{last_op}|structural"
            tick("len")
            if len(c) != len(m):
                V("len", site, step, f"coll {j}: len={len(c)} model={len(m)}", ("c", j))
                dead_colls.add(j)
            try:
                it = list(c)
            except Exception as e:  # sort key raised (e.g. mixed types) -> recorded only
                log.append(("iter_exc", type(e).__name__))
                return
            tick("members")
            got = sorted(map(id, it))
            exp = sorted(id(streams[si]) for _, si in m)
            if got != exp:
                lost = len([x for x in exp if x not in got])
                V("members", site, step, f"coll {j}: iteration yields {len(got)} objects, model holds {len(exp)} ({lost} missing)", ("c", j))
                dead_colls.add(j)
                return
            tick("keys")
            for k, si in m:
                if not (k in c) or c[k] is not streams[si]:
                    V("keys", site, step, f"coll {j}: key {k!r} missing or bound to another object", ("c", j))
                    dead_colls.add(j)
                    break
            tick("iter_order")
            kf = keyfn(meta)
            try:
                ks = [kf(s) for s in it]
                bad = any((a < b) if meta["reverse"] else (a > b) for a, b in zip(ks, ks[1:]))
            except Exception:
                bad = False
            if bad:
                V("iter_order", site, step, f"coll {j}: keys in iteration order {ks!r} reverse={meta['reverse']}", ("c", j))
            else:
                tick("index")
                for pos, s in enumerate(it):
                    try:
                        gi = c.get_index(s)
                        ok = it[gi] is s and c[gi] is s and (gi == pos or it[pos] is it[gi])
                    except Exception as e:
                        ok, gi = False, repr(e)
                    if not ok or c[pos] is not it[pos]:
                        V("index", site, step, f"coll {j}: get_index/[int] disagree with iteration at position {pos} ({gi})", ("c", j))
                        break
            if meta["stale"]:
                probe("iterate_after_member_mutation")

        def snapshot(j):
            return [(k, si) for k, si in models[j]], [id(s) for s in colls[j]._streams.values()] if hasattr(colls[j], "_streams") else None

        for step, st in enumerate(trace["steps"]):
            op = st["op"]
            stats["ops"][op] = stats["ops"].get(op, 0) + 1
            if prev_op:
                pk = prev_op + ">" + op
                stats["pairs"][pk] = stats["pairs"].get(pk, 0) + 1
            prev_op = op
            outcome = None
            touched_stream = None
            touched_colls = set()
            if st.get("open_iter") and colls and "c" in st:
                try:
                    it_open = iter(colls[st["c"] % len(colls)])
                    next(it_open, None)
                    probe("mutator_called_during_iteration")
                except Exception:
                    pass
            if "c" in st and colls:
                touched_colls.add(st["c"] % len(colls))
            if op == "concat" and colls:
                touched_colls.update((st["a"] % len(colls), st["b"] % len(colls), st["dst"]))
            if op == "new_stream":
                kw = st["kw"]
                try:
                    s = Stream(**kw)
                except Exception as e:
                    outcome = "raise:" + type(e).__name__
                    probe("ctor_raised")
                    s = None
                if s is not None:
                    fl = dict(zero_span=kw["t_supply"] is not None and kw["t_supply"] == kw["t_target"], zero_duty=kw["heat_flow"] == 0, neg_duty=kw["heat_flow"] < 0)
                    if kw["t_supply"] is None or kw["t_target"] is None:
                        fl["incomplete"] = True
                        probe("stream_created_incomplete")
                    if len(streams) < MAX_STREAMS:
                        streams.append(s)
                        flags.append(fl)
                        touched_stream = len(streams) - 1
                    else:  # pool full: a fresh object is still checked, then dropped
                        streams.append(s)
                        flags.append(fl)
                        check_stream(len(streams) - 1, step, op)
                        streams.pop()
                        flags.pop()
            elif op == "set_other":
                if not streams:
                    outcome = "skip"
                else:
                    i = st["s"] % len(streams)
                    try:
                        setattr(streams[i], st["attr"], st["v"])
                        repr(streams[i])
                        outcome = "ok"
                    except Exception as e:
                        outcome = "raise:" + type(e).__name__
                    touched_stream = i
                    if st["attr"] == "name":
                        for j, m in enumerate(models):
                            if any(si == i for _, si in m) and "name" in sort_attrs(cmeta[j]):
                                cmeta[j]["stale"] = True
                    elif st["attr"] in ("P_supply", "P_target", "h_supply", "h_target"):
                        # these setters run the full recomputation too: on a stream that sat in the zero-span / zero-duty state
                        # (and got a duty through set_heat_flow since) that moves t_target and changes CP - a member mutated
                        # after the collection last sorted, i.e. the listed stale-order finding, not a structural one
                        for j, m in enumerate(models):
                            if any(si == i for _, si in m) and sort_attrs(cmeta[j]) & {"t_target", "t_min", "t_max", "t_min_star", "t_max_star", "CP", "heat_flow"}:
                                cmeta[j]["stale"] = True
                                probe("member_mutated_after_insertion")
                    probe("other_setter_called")
            elif op in ("set", "set_heat_flow"):
                if not streams:
                    outcome = "skip"
                else:
                    i = st["s"] % len(streams)
                    s, fl = streams[i], flags[i]
                    attr, v = (st["attr"], st["v"]) if op == "set" else ("heat_flow", st["v"])
                    if st.get("np"):
                        v = getattr(np, st["np"])(v)
                        probe("numpy_scalar_assigned")
                    incomplete = s.t_supply is None or s.t_target is None
                    if op == "set" and st.get("keep_dir") and attr in ("t_supply", "t_target") and not incomplete:
                        other = s.t_target if attr == "t_supply" else s.t_supply
                        hot = s.t_supply > s.t_target
                        want_gt = hot if attr == "t_supply" else not hot
                        if (v > other) != want_gt or v == other:
                            v = other + (abs(v - other) + 1.0) * (1 if want_gt else -1)
                    before_dir = 0 if incomplete else _dirn(s)
                    try:
                        if op == "set":
                            setattr(s, attr, v)
                        elif st.get("units"):
                            s.set_heat_flow(v, units=st["units"] if isinstance(st["units"], str) else "kW")
                        else:
                            s.set_heat_flow(v)
                        outcome = "ok"
                    except Exception as e:
                        outcome = "raise:" + type(e).__name__
                        probe("setter_raised")
                        stats["faults"]["setter_raised"] = stats["faults"].get("setter_raised", 0) + 1
                    still_incomplete = s.t_supply is None or s.t_target is None
                    after_dir = 0 if still_incomplete else _dirn(s)
                    if incomplete and not still_incomplete:
                        # first full classification: everything derived was just computed from scratch
                        fl.update(zero_span=False, degenerate=False)
                    if still_incomplete:
                        pass
                    elif op == "set" and outcome == "ok" and not (s.t_supply == s.t_target and s.heat_flow == 0):
                        fl["degenerate"] = False  # a property setter recomputes every derived attribute from scratch
                    if before_dir and after_dir and before_dir != after_dir:
                        fl["flipped"] = True
                        probe("direction_flip")
                    if not still_incomplete and attr in ("t_supply", "t_target") and v == (s.t_target if attr == "t_supply" else s.t_supply):
                        fl["zero_span"] = True
                        probe("zero_span_assigned")
                    if attr == "heat_flow":
                        if v == 0:
                            fl["zero_duty"] = True
                            probe("zero_duty_assigned")
                        if v < 0:
                            fl["neg_duty"] = True
                    touched_stream = i
                    # staleness bookkeeping for collections holding this object
                    for j, m in enumerate(models):
                        if any(si == i for _, si in m):
                            dep = sort_attrs(cmeta[j])
                            # a property setter recomputes EVERY derived attribute from scratch (which matters when the stream was
                            # in, or leaves, the zero-span/zero-duty state: a dt_cont assignment can then change CP and t_target);
                            # set_heat_flow writes the duty and CP only
                            derived = ({attr, "t_target", "t_min", "t_max", "t_min_star", "t_max_star", "CP"} if op == "set" else {"heat_flow", "CP"})
                            if dep & derived:
                                cmeta[j]["stale"] = True
                                probe("member_mutated_after_insertion")
            elif op == "new_coll":
                if len(colls) < MAX_COLLS:
                    colls.append(StreamCollection())
                    models.append([])
                    cmeta.append(dict(kind="default", spec=None, reverse=True, stale=False))
                else:
                    outcome = "skip"
            elif not colls or (not streams and op not in ("sort_key", "query", "remove", "concat")):
                outcome = "skip"
            elif op == "add":
                j, i = st["c"] % len(colls), st["s"] % len(streams)
                key = st["key"] if st["key"] is not None else streams[i].name
                colls[j].add(streams[i], st["key"], st["po"])
                model_add(models[j], key, i, st["po"])
                if any(si == i for _, si in models[j][:-1]):
                    probe("same_object_twice")
                cmeta[j]["stale"] = False
            elif op == "add_many":
                j = st["c"] % len(colls)
                ss = [x % len(streams) for x in st["ss"]]
                keys = st["keys"]
                try:
                    colls[j].add_many([streams[i] for i in ss], keys, st["po"])
                    outcome = "ok"
                    for n, i in enumerate(ss):
                        model_add(models[j], keys[n] if keys is not None else streams[i].name, i, st["po"])
                except ValueError:
                    outcome = "raise:ValueError"
                    if keys is None or len(keys) == len(ss):
                        V("add_many_raise", op + "|structural", step, "add_many raised ValueError although lengths match")
                    probe("add_many_len_mismatch")
                if outcome == "ok" and ss:
                    cmeta[j]["stale"] = False  # add() marks the cache dirty; an empty add_many does not
            elif op == "remove":
                j = st["c"] % len(colls)
                m = models[j]
                if isinstance(st["key"], dict):
                    key = m[st["key"]["ref"] % len(m)][0] if m else "nope"
                else:
                    key = st["key"]
                present = any(k == key for k, _ in m)
                try:
                    colls[j].remove(key)
                    outcome = "ok"
                except KeyError:
                    outcome = "raise:KeyError"
                if (outcome == "ok") != present and j not in dead_colls:
                    V("remove", op + "|structural", step, f"coll {j}: remove({key!r}) -> {outcome}, model present={present}")
                if present:
                    models[j] = [e for e in m if e[0] != key]
                if present:
                    cmeta[j]["stale"] = False  # a failed remove (KeyError) does not mark the cache dirty
            elif op == "replace":
                j = st["c"] % len(colls)
                ss = [x % len(streams) for x in st["ss"]] if streams else []
                d = {f"k{n}": streams[i] for n, i in enumerate(ss)}
                colls[j].replace(d)
                # reference: the collection now holds exactly the dict's values; keys follow the add() naming rule
                models[j] = []
                names_seen = set()
                for i in ss:
                    if streams[i].name in names_seen:
                        probe("replace_name_clash")
                    names_seen.add(streams[i].name)
                    model_add(models[j], streams[i].name, i, True)
                cmeta[j]["stale"] = False
                cmeta[j]["replace_clash"] = len(names_seen) != len(ss)
            elif op == "batch_fail":
                j = st["c"] % len(colls)
                ss = [x % len(streams) for x in st["ss"]]
                batch = [streams[i] for i in ss]
                pos, how, c_ = min(st["pos"], len(ss)), st["how"], colls[j]
                old_m = [list(e) for e in models[j]]
                try:
                    if how == "add_many_none":
                        c_.add_many(batch[:pos] + [None] + batch[pos:], None, st["po"])
                    elif how == "add_many_gen":
                        def _src():
                            yield from batch[:pos]
                            raise RuntimeError("the caller's source failed")
                        c_.add_many(_src(), None, st["po"])
                    elif how == "add_many_badkey":
                        pos = min(pos, len(ss) - 1)
                        keys_ = [streams[i].name for i in ss]
                        keys_[pos] = ["not", "hashable"]
                        c_.add_many(batch, keys_, st["po"])
                    else:
                        c_.replace({f"k{n}": x for n, x in enumerate(batch[:pos] + [None] + batch[pos:])})
                    outcome = "ok"
                except Exception as e:
                    outcome = "raise:" + type(e).__name__
                if outcome != "ok":
                    fk = "batch_failed_after_%s" % ("some" if pos else "none")
                    stats.setdefault("faults", {})[fk] = stats.setdefault("faults", {}).get(fk, 0) + 1
                # Re-synchronise the model from what the collection says it holds, through the un-cached public queries
                # (`key in c`, `c[key]`): what a failed batch leaves behind is not specified (nothing / a prefix / all valid
                # elements), but it may only hold old members and batch members, an insertion may not lose an old member,
                # and afterwards len / iteration / index must describe exactly that content (judged by check_coll below).
                n_max = len(old_m) + len(ss) + 2
                cand, seen_k = [], set()
                for i in ss:
                    base = streams[i].name
                    for kk in [base] + [f"{base}_{n}" for n in range(1, n_max + 1)]:
                        if isinstance(kk, str) and kk not in seen_k:
                            seen_k.add(kk)
                            cand.append(kk)
                new_m = []
                try:
                    for key, si in old_m:
                        if key in c_:
                            x = c_[key]
                            if x is streams[si]:
                                new_m.append([key, si])
                            elif any(x is b for b in batch) and (not st["po"] or how == "replace_none"):
                                new_m.append([key, ss[[x is b for b in batch].index(True)]])  # documented replacement
                            else:
                                V("members", op + "|structural", step, f"coll {j}: after a failed batch key {key!r} holds another object", ("c", j))
                        elif how != "replace_none":
                            V("members", op + "|structural", step, f"coll {j}: member {key!r} lost by a failed insertion batch", ("c", j))
                    have = {k_ for k_, _ in new_m}
                    for kk in cand:
                        if kk not in have and kk in c_:
                            x = c_[kk]
                            hit = [n for n, b in enumerate(batch) if x is b]
                            if hit:
                                new_m.append([kk, ss[hit[0]]])
                                have.add(kk)
                            else:
                                V("members", op + "|structural", step, f"coll {j}: after a failed batch key {kk!r} holds an object that was never given to it", ("c", j))
                except Exception as e:
                    V("members", op + "|structural", step, f"coll {j}: key queries raise after a failed batch: {type(e).__name__}", ("c", j))
                # the model's order is the collection's insertion order (it decides how later clashes are renamed): a replace
                # rebuilds the members from scratch, so take the order the collection itself reports (repr lists the keys,
                # un-cached); fall back to "batch order first" for a replace if repr does not parse
                order = None
                try:
                    import ast
                    r_ = repr(c_)
                    order = ast.literal_eval(r_[r_.index("(") + 1 : r_.rindex(")")])
                except Exception:
                    order = None
                if isinstance(order, list) and sorted(map(str, order)) == sorted(str(k_) for k_, _ in new_m) and len(order) == len(new_m):
                    pos_ = {k_: n_ for n_, k_ in enumerate(order)}
                    new_m.sort(key=lambda e_: pos_[e_[0]])
                elif how == "replace_none":
                    in_batch = [e_ for e_ in new_m if e_[0] in seen_k]
                    new_m = sorted(in_batch, key=lambda e_: cand.index(e_[0])) + [e_ for e_ in new_m if e_[0] not in seen_k]
                if new_m != old_m:
                    cmeta[j]["stale"] = False  # any insertion marks the cache dirty
                    probe("batch_failed_partially_applied")
                models[j] = new_m
            elif op == "sort_key":
                j = st["c"] % len(colls)
                spec = st["spec"]
                if st["kind"] == "attr":
                    colls[j].set_sort_key(spec, reverse=st["reverse"])
                elif st["kind"] == "list":
                    colls[j].set_sort_key(list(spec), reverse=st["reverse"])
                else:
                    colls[j].set_sort_key(CALLABLES[spec], reverse=st["reverse"])
                cmeta[j].update(kind=st["kind"], spec=spec, reverse=st["reverse"], stale=False)
            elif op == "concat":
                a, b = st["a"] % len(colls), st["b"] % len(colls)
                before_a, before_b = snapshot(a), snapshot(b)
                res = colls[a] + colls[b]
                if a == b:
                    probe("self_concat")
                if {k for k, _ in models[a]} & {k for k, _ in models[b]}:
                    probe("concat_overlapping_keys")
                rm: list = []
                for k, si in models[a]:
                    model_add(rm, streams[si].name, si, True)
                for k, si in models[b]:
                    model_add(rm, streams[si].name, si, True)
                if a in dead_colls or b in dead_colls:
                    pass
                elif snapshot(a) != before_a or snapshot(b) != before_b:
                    V("concat_operands", op + "|structural", step, f"operands {a},{b} changed by +")
                try:
                    got = sorted(id(s) for s in res)
                except Exception as e:  # the default sort key cannot order a member yet (incomplete stream): membership judged via len only
                    got = None
                    log.append(("concat_iter_exc", type(e).__name__))
                exp = sorted(id(streams[si]) for _, si in models[a]) + sorted(id(streams[si]) for _, si in models[b])
                tick("concat")
                if a in dead_colls or b in dead_colls:
                    pass
                elif (got is not None and got != sorted(exp)) or len(res) != len(exp):
                    V("concat", op + "|structural", step, f"a+b holds {len(got) if got is not None else '?'} (len {len(res)}) of {len(exp)} members")
                d = st["dst"]
                dst_dead = a in dead_colls or b in dead_colls
                if d < len(colls):
                    dead_colls.discard(d)
                    if dst_dead:
                        dead_colls.add(d)
                    colls[d], models[d] = res, rm
                    cmeta[d] = dict(kind="default", spec=None, reverse=True, stale=False)
                elif len(colls) < MAX_COLLS:
                    colls.append(res)
                    models.append(rm)
                    cmeta.append(dict(kind="default", spec=None, reverse=True, stale=False))
                    if dst_dead:
                        dead_colls.add(len(colls) - 1)
            elif op == "query" and (st["c"] % len(colls)) in dead_colls:
                outcome = "skip"
            elif op == "query":
                j = st["c"] % len(colls)
                c, m = colls[j], models[j]
                present = any(k == st["key"] for k, _ in m)
                tick("contains")
                if (st["key"] in c) != present:
                    V("contains", op + "|structural", step, f"coll {j}: {st['key']!r} in c = {st['key'] in c}, model {present}")
                try:
                    c[st["key"]]
                    got = True
                except KeyError:
                    got = False
                if got != present:
                    V("contains", op + "|structural", step, f"coll {j}: c[{st['key']!r}] found={got}, model {present}")
                try:  # read-only surface: must not disturb anything (judged by the invariants that follow)
                    repr(c)
                    c == c
                    c == colls[(j + 1) % len(colls)]
                    bool(c != 5)
                except Exception as e:
                    log.append(("poke_exc", type(e).__name__))
                n = len(m)
                i = st["i"]
                try:
                    c[i]
                    ok = True
                except IndexError:
                    ok = False
                except Exception:
                    ok = None
                tick("int_index_range")
                if ok is not None and ok != (-n <= i < n):
                    V("int_index_range", op + "|structural", step, f"coll {j}: c[{i}] ok={ok} with {n} members")
                if streams:
                    s0 = streams[i % len(streams)]
                    inside = any(streams[si] is s0 for _, si in m)
                    try:
                        c.get_index(s0)
                        found = True
                    except ValueError:
                        found = False
                    except Exception:
                        found = None
                    if found is not None and found != inside:
                        V("index", op + "|structural", step, f"coll {j}: get_index(non-member)={found}, member={inside}")
            # ---- first observation after a mutator, made before the full check iterates (and thereby cleans the cache)
            if "obs" in st and colls and outcome != "skip":
                j = (st["dst"] if op == "concat" else st["c"] % len(colls))
                if j < len(colls) and j not in dead_colls and models[j]:
                    kind, k = st["obs"]
                    c, m = colls[j], models[j]
                    k = k % len(m) if k >= 0 else -((-k - 1) % len(m)) - 1
                    try:
                        if kind == "getitem":
                            x = c[k]
                            it = list(c)
                            ok = x is it[k] or keyfn(cmeta[j])(x) == keyfn(cmeta[j])(it[k])
                        elif kind == "get_index":
                            s0 = streams[m[k][1]]
                            gi = c.get_index(s0)
                            it = list(c)
                            ok = it[gi] is s0
                        else:
                            ok = True
                    except Exception as e:
                        ok = None
                        log.append(("obs_exc", type(e).__name__))
                    tick("first_obs_" + kind)
                    if ok is False:
                        V("index", ("member_mutated" if cmeta[j]["stale"] else f"{op}|structural"), step, f"coll {j}: first {kind}({k}) after {op} disagrees with the sorted iteration", ("c", j))
            # ---- invariants after every step
            n0 = len(viol)
            for i in range(len(streams)):
                check_stream(i, step, op if i == touched_stream else "idle")
            for j in range(len(colls)):
                check_coll(j, step, op if j in touched_colls else "idle")
            # event log + abstract state
            ev = [op, outcome]
            for s in streams:
                ev.append([repr(getattr(s, a, None)) for a in ("t_supply", "t_target", "heat_flow", "dt_cont", "htc", "type")] + [repr(getattr(s, a, None)) for a in ("CP", "t_min", "t_max", "t_min_star", "t_max_star", "htr")])
            for j, c in enumerate(colls):
                try:
                    ev.append([len(c)] + [s.name for s in c])
                except Exception:
                    ev.append(["iter_exc"])
            log.append(ev)
            ab = (
                tuple((getattr(s, "type", None), 9 if (s.t_supply is None or s.t_target is None) else _dirn(s), int(bool(s.heat_flow > 0)) - int(bool(s.heat_flow < 0))) for s in streams),
                tuple((len(m), cmeta[j]["stale"], cmeta[j]["kind"], cmeta[j]["reverse"], sum(1 for k, si in m if k != streams[si].name)) for j, m in enumerate(models)),
            )
            states.add(prng.digest(ab))
            if len(viol) >= 8:
                break
        return dict(
            violations=viol[:8],
            digest=prng.digest(log),
            steps=len(log),
            stats=stats,
            states=sorted(states),
            interleaving=prng.digest([s.get("client", 0) for s in trace["steps"]]) if trace.get("swarm", {}).get("clients", 1) > 1 else None,
            sim_time=0.0,
        )

    # ------------------------------------------------------------------ shrinking helpers
    def simplify(self, trace):
        import copy

        steps = trace["steps"]
        for k, st in enumerate(steps):
            def var(**ch):
                t = copy.deepcopy(trace)
                t["steps"][k].update(ch)
                return t

            if st["op"] == "new_stream":
                kw = st["kw"]
                for fld, simple in (("dt_cont", 0.0), ("htc", 1.0), ("heat_flow", 100.0), ("name", "A"), ("t_supply", 100.0), ("t_target", 50.0)):
                    if kw[fld] != simple:
                        t = copy.deepcopy(trace)
                        t["steps"][k]["kw"][fld] = simple
                        yield t
            elif st["op"] == "set" and st["v"] != round(st["v"]):
                yield var(v=float(round(st["v"])))
            elif st["op"] == "add_many" and len(st["ss"]) > 1:
                yield var(ss=st["ss"][:-1], keys=None if st["keys"] is None else st["keys"][:-1])
            elif st["op"] == "add" and st["key"] is not None:
                yield var(key=None)
            elif st["op"] == "sort_key" and st["kind"] != "attr":
                yield var(kind="attr", spec="t_supply")
            if st.get("client"):
                yield var(client=0)

    def warnings(self, stats, tier):
        want = ["clash_renamed", "direction_flip", "member_mutated_after_insertion", "self_concat", "concat_overlapping_keys", "same_object_twice", "zero_span_assigned"]
        return [f"probe {p} never hit" for p in want if not stats.get("probes", {}).get(p)]


WORLD = C19()
