"""C16 — all input channels describe the same problem identically.

World: PinchProblem wrappers + the bare service on one node, a simulated producer
writing the same logical problem as dict / model / value-with-unit dict / JSON /
CSV bundle (directory and pair) / template workbook onto a simulated disk (per-run
scratch directory), a simulated clock that names exports.  Faults: read errors,
torn files, lost rows, write errors, missing directories, clock jumps.
Oracle: the plain-dict service result for the same logical problem + a two-field
reference model per wrapper (loaded problem, cached?) + re-opened exported workbooks.
"""
from __future__ import annotations

import copy
import csv
import json
import math
import os

from sim import prng
from sim.engine import World
from sim.node import LineTracer, SimClock, drop_scratch, make_scratch, run_plain
from worlds import problems

FILE_CHANNELS = ["json", "json_vu", "csv_dir", "csv_tuple", "xlsx"]
MEM_CHANNELS = ["dict", "model", "vu_dict", "from_json"]
FORBIDDEN = set("[]:*?/\\")
UNITS = dict(t_supply="degC", t_target="degC", heat_flow="kW", dt_cont="degC", htc="kW/m^2/degC", price="$/MWh")
SAFE_NAMES = ["Stream", "Utility", "H1", "C 2", "Feed-pre", "Reboiler (A)", "Stream_7", "Cond, top", "Wasseré", "x&y", "BFW", 'He said "hi"', "O'Brien feed", "semi;colon",
              "#2 Paper Machine", "Feed #2", "50% load", "@inlet", "a|b", "~purge", "{vent}", "<side draw>", "$ cost", "a+b", "x^2", "back`tick", "excl!", "q = 5", "-minus", "+plus", "under_ score"]
SAFE_ZONES = ["Process Zone", "Plant", "Area 1", "Unit-A", "North", "Dairy (2)", "B_2", "#1 Unit", "Area #3", "Line @ 5", "Z{1}", "50% zone", "A+B", "Mill; east", "R&D", "~temp", "-dash first"]
HOSTILE_ZONES = [
    "Zone[1]", "a:b", "what?", "star*", "back\\slash", "'quoted'", "x" * 40, "Very long zone name that exceeds the limit", "Very long zone name that exceeds the limIT",
    "Very long zone name that exceeds the limit!", "Überhitzer – Stufe 2", "tab\tname", "Sheet", "  padded  ", "UPPER", "upper", "a/b:c", "History",
    "what*", "what_", "star?", "a:b?", "a_b_", "'", "''", "?", "x" * 30 + "'", "[]", "Summary",
    "Hydrotreater Reactor Loop A (2) revamp", "Unit (2)", "Plant (2)",
]
ODD_LABELS = ["2024", "007", "1e3", "NA", "nan", "None", "Area.1", " x ", "3.5", "TRUE", "N-A"]


def xlsx_norm_label(text, prefix):
    """The workbook reader's documented label normalisation (strip, '.' -> '-', digit-only labels get a prefix)."""
    t = str(text).strip().replace(".", "-")
    return prefix + t if t.isdigit() else t


def xlsx_normalised(prob):
    p = copy.deepcopy(prob)
    for s_ in p["streams"]:
        s_["zone"] = xlsx_norm_label(s_["zone"], "Z")
        s_["name"] = xlsx_norm_label(s_["name"], "S")
    return p


LONG_FAMILY = [f"Evaporation and stripping plant - line {i}" for i in range(1, 9)]
STEMS = ["case", "run A", "plant_2024", "x-y", "Projekt ä", "p (1)", "case.v2", "Plant.2024.rev3"]
HOSTILE_STEMS = ["a[b]", "q?", "x:y", "'q'", "a very long project name over thirty-one chars", "st*r", "CASE"]


# ------------------------------------------------------------------------------------------- producer
BLANKABLE = ("t_target", "dt_cont", "price", "htc")  # utility cells that may be left blank (defaults apply)


def as_ints(p):
    """Same problem with integral floats written as Python ints (what a hand-written dict or JSON file looks like)."""
    for rec in p["streams"] + p.get("utilities", []):
        for k in UNITS:
            v = rec.get(k)
            if isinstance(v, float) and v.is_integer() and not (v == 0 and math.copysign(1.0, v) < 0):  # -0.0 has no integer spelling
                rec[k] = int(v)
    return p


def materialize(prob):
    """Logical problem -> schema-valid plain dict: a blank utility field becomes a value-with-unit object holding None."""
    p = copy.deepcopy(prob)
    for u in p.get("utilities", []):
        for k in BLANKABLE:
            if u.get(k) is None:
                u[k] = dict(value=None, units=UNITS[k])
    return p


def vu_problem(prob):
    p = materialize(prob)
    for rec in p["streams"] + p.get("utilities", []):
        for k, u in UNITS.items():
            if k in rec and rec[k] is not None and not isinstance(rec[k], dict):
                rec[k] = dict(value=rec[k], units=u)
    return p


def write_json(path, prob, vu=False, ints=False):
    with open(path, "w", encoding="utf-8") as f:
        json.dump(vu_problem(prob) if vu else (as_ints(materialize(prob)) if ints else materialize(prob)), f)


S_HEAD = (["Process Zone", "Stream", "TS", "TT", "ΔH", "ΔTcont", "HTC"], ["", "", "°C", "°C", "kW", "°C", "kW/m2/°C"])
U_HEAD = (["Utility", "Type", "Ts", "Tt", "ΔTcont", "Price", "HTC"], ["", "", "°C", "°C", "°C", "$/MWh", "kW/m2/°C"])


def stream_rows(prob, keep=None):
    ss = prob["streams"] if keep is None else prob["streams"][:keep]
    return [[s["zone"], s["name"], s["t_supply"], s["t_target"], s["heat_flow"], s["dt_cont"], s["htc"]] for s in ss]


def utility_rows(prob):
    return [[u["name"], u["type"], u["t_supply"], u["t_target"], u["dt_cont"], u["price"], u["htc"]] for u in prob.get("utilities", [])]


def has_blanks(prob):
    return any(u.get(k) is None for u in prob.get("utilities", []) for k in BLANKABLE)


def _cell(x, ints):
    if isinstance(x, float) and ints and x.is_integer() and not (x == 0 and math.copysign(1.0, x) < 0):
        return int(x)
    return x


def write_csv(dirpath, prob, keep=None, names=("streams.csv", "utilities.csv"), units=True, ints=False, bom=False, extra=False):
    os.makedirs(dirpath, exist_ok=True)
    for fname, head, rows in ((names[0], S_HEAD, stream_rows(prob, keep)), (names[1], U_HEAD, utility_rows(prob))):
        with open(os.path.join(dirpath, fname), "w", newline="", encoding="utf-8-sig" if bom else "utf-8") as f:
            w = csv.writer(f)
            w.writerow(head[0])
            w.writerow(head[1] if units else [""] * len(head[1]))
            for r in rows:
                w.writerow(["" if x is None else (repr(_cell(x, ints)) if isinstance(x, float) else x) for x in r])
            if extra:
                f.write("\r\n\r\n")  # trailing empty lines (comma-only rows are NOT written: the CSV reader, unlike the workbook reader, does not promise to skip nameless rows)
    if extra:
        # other files lying around in the bundle directory (an older export, notes): not part of the bundle
        with open(os.path.join(dirpath, "a_old_streams.csv"), "w", newline="", encoding="utf-8") as f:
            w = csv.writer(f)
            w.writerow(S_HEAD[0])
            w.writerow(S_HEAD[1])
            w.writerow(["Old zone", "Old stream", "300.0", "40.0", "1234.5", "10.0", "1.0"])
        with open(os.path.join(dirpath, "a_old_utilities.csv"), "w", newline="", encoding="utf-8") as f:
            w = csv.writer(f)
            w.writerow(U_HEAD[0])
            w.writerow(U_HEAD[1])
        with open(os.path.join(dirpath, "notes.txt"), "w") as f:
            f.write("exported by the simulated producer\n")
    return os.path.join(dirpath, names[0]), os.path.join(dirpath, names[1])


def write_xlsx(path, prob, keep=None, units=True, ints=False, extra=False):
    import openpyxl

    wb = openpyxl.Workbook()
    ws = wb.active
    ws.title = "Stream Data"
    ws.append(S_HEAD[0])
    ws.append([(x or None) if units else None for x in S_HEAD[1]])
    for r in stream_rows(prob, keep):
        ws.append([_cell(x, ints) for x in r])
    wu = wb.create_sheet("Utility Data")
    wu.append(U_HEAD[0])
    wu.append([(x or None) if units else None for x in U_HEAD[1]])
    for r in utility_rows(prob):
        wu.append([_cell(x, ints) for x in r])
    if extra:
        # what the shipped template looks like: blank rows under the data, and the optional loc / index columns
        for _ in range(2):
            ws.append([None] * 7)
            wu.append([None] * 7)
        ws.cell(row=1, column=8, value="Loc")
        ws.cell(row=1, column=9, value="Index")
        for i in range(len(stream_rows(prob, keep))):
            ws.cell(row=3 + i, column=8, value=0)
            ws.cell(row=3 + i, column=9, value=i)
    if extra and not prob.get("options"):
        wo = wb.create_sheet("Options")  # the template's Options sheet with every value left blank
        wo.append(["### General parameters ###", "Value (blank = default value)"])
        for k in ("DT_CONT", "DT_PHASE_CHANGE", "HTC", "### Targeting analysis flags ###", "DO_BALANCED_CC"):
            wo.append([k, None])
    if prob.get("options"):
        wo = wb.create_sheet("Options")
        wo.append(["### Options ###", "Value (blank = default value)"])
        for k, v in prob["options"].items():
            wo.append([k, v])
        wo.append(["DT_PHASE_CHANGE", None])
    wb.save(path)


def truncate(path, frac):
    data = open(path, "rb").read()
    k = max(1, min(len(data) - 1, int(len(data) * frac)))
    with open(path, "wb") as f:
        f.write(data[:k])


# ------------------------------------------------------------------------------------------- comparison
def simplify_output(out):
    """TargetOutput -> comparable structure (names without the project prefix handled by caller)."""
    d = json.loads(out.model_dump_json()) if hasattr(out, "model_dump_json") else out
    recs = []
    for t in d["targets"]:
        recs.append(
            dict(
                name=t["name"],
                Qh=t["Qh"], Qc=t["Qc"], Qr=t["Qr"],
                hot_pinch=(t.get("temp_pinch") or {}).get("hot_temp"),
                cold_pinch=(t.get("temp_pinch") or {}).get("cold_temp"),
                hot=[(u["name"], u["heat_flow"]) for u in t.get("hot_utilities", [])],
                cold=[(u["name"], u["heat_flow"]) for u in t.get("cold_utilities", [])],
                cost=t.get("utility_cost"),
                area=t.get("area"),
            )
        )
    graphs = {}
    for key, gs in (d.get("graphs") or {}).items():
        shape, vals = [], []
        for g in gs.get("graphs", []):
            shape.append((g.get("type"), [(sg.get("title"), len(sg.get("data_points", []))) for sg in g.get("segments", [])]))
            for sg in g.get("segments", []):
                for pt_ in sg.get("data_points", []):
                    vals += [pt_["x"], pt_["y"]]
        graphs[key] = (shape, vals)
    return dict(name=d.get("name"), targets=recs, graph_keys=sorted((d.get("graphs") or {}).keys()), graphs=graphs)


def _num(x):
    if isinstance(x, dict) and "value" in x:
        return x["value"]
    return x


def compare_outputs(a, b, scale, graph_tol=0.011, exact=False):
    """Return None if equal within 1e-9*scale, else a description + generalised field.
    Graph payloads: same structure, values within max(1e-9*scale, graph_tol) (they are rounded for display)."""
    if a["name"] != b["name"]:
        return "name", f"result name {a['name']!r} vs {b['name']!r}"
    if [t["name"] for t in a["targets"]] != [t["name"] for t in b["targets"]]:
        return "record_names", f"record names differ: {[t['name'] for t in a['targets']][:4]} vs {[t['name'] for t in b['targets']][:4]}"
    if a["graph_keys"] != b["graph_keys"]:
        return "graph_keys", "graph set keys differ"
    # every channel except the workbook hands the reader the exact decimal text of each number (repr round-trips), so
    # their targets must agree to the last bit; a workbook keeps 15 significant digits, hence the tolerance there only
    eps = 0.0 if exact else 1e-9 * scale
    if exact and graph_tol is not None:
        graph_tol = 0.0

    def close(x, y):
        x, y = _num(x), _num(y)
        if x is None or y is None:
            return x is None and y is None
        return abs(x - y) <= eps

    for ta, tb in zip(a["targets"], b["targets"]):
        for k in ("Qh", "Qc", "Qr", "hot_pinch", "cold_pinch", "cost", "area"):
            if not close(ta[k], tb[k]):
                return k, f"record {ta['name']!r}: {k} {_num(ta[k])!r} vs {_num(tb[k])!r}"
        for side in ("hot", "cold"):
            if [n for n, _ in ta[side]] != [n for n, _ in tb[side]]:
                return side + "_utility_names", f"record {ta['name']!r}: {side} utilities {[n for n, _ in ta[side]]} vs {[n for n, _ in tb[side]]}"
            for (n, x), (_, y) in zip(ta[side], tb[side]):
                if not close(x, y):
                    return side + "_utility_duty", f"record {ta['name']!r}: {side} utility {n!r} duty {_num(x)!r} vs {_num(y)!r}"
    if graph_tol is not None:
        gt = max(eps, graph_tol)
        for key in a["graph_keys"]:
            (sa, va), (sb, vb) = a["graphs"][key], b["graphs"][key]
            if sa != sb:
                return "graph_structure", f"graph set {key!r}: graph types / segment titles / point counts differ"
            for x, y in zip(va, vb):
                if x is None or y is None:
                    if x is not y:
                        return "graph_values", f"graph set {key!r}: a plotted point is missing on one side"
                    continue
                if not abs(x - y) <= gt:
                    return "graph_values", f"graph set {key!r}: a plotted point differs {x!r} vs {y!r}"
    return None


def survives_15_digits(prob):
    """True if every number of the problem is unchanged by rounding to 15 significant digits (what a workbook cell keeps)."""
    for rec in prob["streams"] + prob.get("utilities", []):
        for k in UNITS:
            v = rec.get(k)
            if isinstance(v, float) and float("%.15g" % v) != v:
                return False
    return True


def total_duty(prob):
    return 1.0 + sum(abs(s["heat_flow"]) for s in prob["streams"])


# ------------------------------------------------------------------------------------------- world
class C16(World):
    pid = "C16"
    chunk = 1
    run_timeout = 150.0
    quick = dict(runs=600, budget_s=65)
    selftest_n = dict(quick=(12, 6), thorough=(120, 48))
    thorough = dict(runs=200000, budget_s=1500)
    components_real = [
        "OpenPinch.classes.pinch_problem.PinchProblem (load / target / export_to_Excel / from_json / run=True constructor)",
        "OpenPinch.utils.csv_to_json, OpenPinch.utils.wkbook_to_json (real readers on real files written by the simulated producer)",
        "OpenPinch.utils.export (real workbook writer; exported files re-opened with openpyxl), OpenPinch.main.pinch_analysis_service",
    ]
    components_stub = [
        "producer of input files (simulator code using json / csv / openpyxl)",
        "disk: per-run scratch directory under /dev/shm; read faults by wrapping pathlib.Path.open, pandas.read_csv, pandas.read_excel, pandas.ExcelFile; write faults by wrapping pandas.ExcelWriter",
        "wall clock read by OpenPinch.utils.export (simulated clock object)",
    ]
    fault_kinds = ["read_error", "torn_file", "lost_rows", "abort_in_load", "write_error", "missing_dir", "clock_jump", "abort", "injected_error:memory", "injected_error:os", "same_mtime"]
    state_abstraction = "per wrapper (something loaded?, channel of last load, result cached?, last load failed?) x fault kind in force"
    rule = (
        "each run = one generated history (3-20 operations) over 1-3 logical problems and 1-3 wrapper objects: load(wrapper, problem, channel) "
        "for channel in dict/model/value-with-unit dict/from_json/JSON/JSON with units/CSV directory/CSV pair/template workbook, target, "
        "repeated target, export, run=True constructor, bare service calls, sheet-name allocation on hostile label sets; faults armed before "
        "loads/exports.  distinct = distinct step list + problem set; non-trivial = >=2 operations of which >=1 is a load through a file channel "
        "or an export."
    )
    assumptions = [
        "numbers include full-precision floats; every channel except the workbook must agree with the plain dictionary to the last bit (their text round-trips exactly), the workbook (15 significant digits) within 1e-9 of total duty",
        "the workbook channel is compared modulo the workbook reader's documented label normalisation (strip, '.' -> '-', digit-only labels prefixed); every other channel must reproduce labels exactly, including number-like and NA-like ones; hostile sheet-name characters go through dict/JSON/model channels only",
        "utilities in file channels are active with no preset duty (the sheet layout cannot express either)",
        "case-insensitive sheet-name clashes and edge apostrophes are counted, not judged",
    ]

    # ---------------------------------------------------------------- generation
    def generate(self, seed, run):
        S = prng.Streams(seed)
        sw, ops, args, pr, sched = S("swarm"), S("ops"), S("args"), S("problems"), S("schedule")
        swarm = dict(
            length=sw.choice([3, 5, 8, 12, 20]),
            n_problems=sw.choice([1, 2, 2, 3]),
            n_wrappers=sw.choice([1, 1, 2, 3]),
            p_fault=sw.choice([0, 0, 0, 0.15, 0.3]),
            hostile=sw.random() < 0.35,
            channels=sw.sample(FILE_CHANNELS + MEM_CHANNELS, sw.choice([2, 4, 9])),
            w_export=sw.choice([0, 1, 2]),
            clients=sw.choice([1, 2]),
            same_path=sw.random() < 0.35,  # the producer rewrites one fixed file per channel in place
        )
        if swarm["same_path"]:
            # few channels, so that the same file is rewritten and re-loaded several times in one history
            swarm["channels"] = sw.sample(FILE_CHANNELS, sw.choice([1, 2])) + sw.sample(MEM_CHANNELS, sw.choice([0, 1]))
            swarm["n_problems"] = max(2, swarm["n_problems"])
        probs = []
        for k in range(swarm["n_problems"]):
            p = problems.generate(pr, small=True)
            p.pop("zone_tree", None)
            if pr.random() < 0.3:
                # full-precision numbers (16-17 significant digits), as produced by arithmetic upstream of the input file
                for rec in p["streams"]:
                    rec["heat_flow"] = rec["heat_flow"] / 3.0 * 1.1
                    rec["t_supply"] = rec["t_supply"] + 0.1 + 0.2
                for rec in p["utilities"]:
                    rec["t_supply"] = rec["t_supply"] / 7.0 * 7.1
                    rec["t_target"] = rec["t_target"] / 7.0 * 7.1
            elif pr.random() < 0.2:
                # duties of another order of magnitude (W-scale or GW-scale numbers), still <= 6 decimals
                f = pr.choice([0.001, 1000.0, 250.0])
                for rec in p["streams"]:
                    rec["heat_flow"] = round(rec["heat_flow"] * f, 6)
            if pr.random() < 0.15:
                # a sub-ambient problem: every temperature shifted below zero
                shift = float(pr.choice([150, 250, 420]))
                for rec in p["streams"] + p["utilities"]:
                    rec["t_supply"] = round(rec["t_supply"] - shift, 3)
                    rec["t_target"] = round(rec["t_target"] - shift, 3)
            hostile = swarm["hostile"] and pr.random() < 0.7
            zpool = HOSTILE_ZONES if hostile else SAFE_ZONES
            if hostile and pr.random() < 0.2:
                # zone names that differ only by letter case (sheet titles are case-insensitive)
                zpool = ["Unit A", "UNIT A", "unit a", "Unit a", "Überhitzer", "überhitzer"]
            elif hostile and pr.random() < 0.3:
                # a family of zones that agree in their first 31 characters (sheet names collide after truncation);
                # needs enough streams to populate >= 5 zones
                zpool = LONG_FAMILY
                p = problems.generate(pr, small=False)
                p.pop("zone_tree", None)
                for j, s_ in enumerate(p["streams"]):
                    s_["zone"] = f"z{j % 8}"
            zmap = {}
            for s in p["streams"]:
                z = s["zone"]
                if z not in zmap:
                    parts = z.split("/")
                    if zpool is LONG_FAMILY:
                        zmap[z] = LONG_FAMILY[len(zmap) % len(LONG_FAMILY)]
                        s["zone"] = zmap[z]
                        s["name"] = pr.choice(SAFE_NAMES) + (f" {pr.randrange(9)}" if pr.random() < 0.5 else "")
                        continue
                    zmap[z] = "/".join(pr.choice(zpool).replace("/", "_") if hostile else pr.choice(zpool) for _ in parts) if len(parts) > 1 else pr.choice(zpool)
                s["zone"] = zmap[z]
                s["name"] = pr.choice(SAFE_NAMES) + (f" {pr.randrange(9)}" if pr.random() < 0.5 else "")
            if not hostile and pr.random() < 0.15:
                # labels that look like numbers or like missing-value markers (ordinary text in a dictionary or JSON file)
                zmap2 = {}
                for s_ in p["streams"]:
                    if pr.random() < 0.6:
                        zmap2.setdefault(s_["zone"], pr.choice(ODD_LABELS))
                        s_["zone"] = zmap2[s_["zone"]]
                    if pr.random() < 0.4:
                        s_["name"] = pr.choice(ODD_LABELS)
                for u in p["utilities"]:
                    if pr.random() < 0.3:
                        u["name"] = pr.choice(["NA", "2024", "nan", "1e3", "#1 Boiler Steam", "CW #2", "50% steam"])
            if pr.random() < 0.12 and p["streams"]:
                p["streams"].insert(pr.randrange(len(p["streams"]) + 1), dict(p["streams"][pr.randrange(len(p["streams"]))]))  # two identical parallel units
            for u in p["utilities"]:
                u["active"] = True
                u["heat_flow"] = None
                if isinstance(u.get("price"), dict):
                    u["price"] = None  # a blank price cell
                if not hostile and pr.random() < 0.12:
                    u[pr.choice(BLANKABLE)] = None  # a cell left blank: the documented default applies
            has_opts = (not hostile) and pr.random() < 0.3
            if has_opts:
                p["options"] = {k2: v for k2, v in (problems.gen_options(pr) or {}).items() if k2 != "REFRIGERANTS"} or dict(DO_VERTICAL_GCC=True)
                if pr.random() < 0.5:
                    # an option explicitly set to a "falsy" value that differs from its default
                    k2, v = pr.choice([("DO_BALANCED_CC", False), ("DT_CONT", 0.0), ("UTILITY_PRICE", 0.0), ("DT_CONT", 0), ("DECIMAL_PLACES", 0)])
                    p["options"][k2] = v
            probs.append(dict(data=p, hostile=hostile, options=bool(p.get("options"))))
        steps = []
        nw = swarm["n_wrappers"]
        for i in range(swarm["length"]):
            cand = [("load", 5.0), ("target", 4.0), ("svc", 1.5), ("export", 1.5 * swarm["w_export"]), ("ctor_run", 0.6), ("alloc", 0.6), ("clock", 0.5), ("xlsb", 0.12), ("reload", 0.9)]
            op = ops.choices([k for k, _ in cand], [w for _, w in cand])[0]
            c = sched.randrange(swarm["clients"])
            follow_with_target = False
            fault = None
            if args.random() < swarm["p_fault"]:
                fault = True
            if op == "load":
                p = args.randrange(len(probs))
                ch = args.choice(swarm["channels"])
                st = dict(op="load", w=args.randrange(nw), p=p, ch=ch, stem=args.choice(STEMS))
                if swarm["same_path"] and args.random() < 0.8:
                    st["same_path"] = True
                    if args.random() < 0.35:
                        # the producer rewrites the file with ONE digit changed (same length) and the file system keeps the old
                        # modification time (coarse timestamps / a restoring copy tool): size and mtime are unchanged, content is not.
                        # Emitted as a little scenario: load, target, rewrite+load again on the same wrapper, target.
                        first = dict(st, client=c)
                        first.pop("fault", None)
                        steps.append(first)
                        steps.append(dict(op="target", w=st["w"], twice=False, client=c))
                        st = dict(st, tweak=True, fault="same_mtime")
                        st.pop("frac", None)
                        follow_with_target = True
                st["style"] = dict(units=args.random() < 0.8, ints=args.random() < 0.4, bom=args.random() < 0.25, extra=args.random() < 0.3, xlsm=args.random() < 0.2)
                if args.random() < 0.25:
                    st["stem"] = args.choice(HOSTILE_STEMS)  # used only when the problem itself is hostile (JSON channel)
                if fault:
                    st["fault"] = args.choice(["read_error", "torn_file", "lost_rows", "abort_in_load", "abort_in_load"])
                    st["frac"] = round(args.uniform(0.05, 0.95), 3)
                    st["keep"] = args.randrange(1, 6)
                    if st["fault"] == "abort_in_load":
                        # the reader itself is interrupted part-way (Ctrl-C-like, or a failing allocation / system call): the
                        # wrapper may not end up holding half of the new problem
                        st["abort_at"] = args.choice([3, 10, 40, 150, 600, 2500])  # in-memory channels; file channels use `frac` of the reader's own line count
                        st["abort_exc"] = args.choice([None, "memory", "os"])
                        # half of the interruptions land on one of the reader's last lines: the commit of what was read is where
                        # a partial assignment would live
                        st["tail"] = args.choice([None, None, None, None, 0, 1, 2, 3, 4, 6])
                        if args.random() < 0.6:
                            st["ch"] = args.choice(["xlsx", "xlsx", "csv_dir", "csv_tuple", "json"])  # the readers with something to interrupt
                        follow_with_target = True
            elif op == "target":
                st = dict(op="target", w=args.randrange(nw), twice=args.random() < 0.4)
                if fault and args.random() < 0.5:
                    st["abort_at"] = args.choice([20, 200, 2000, 12000, 30000])
                    st["abort_exc"] = args.choice([None, None, "memory", "os"])  # Ctrl-C-like BaseException, or an ordinary failed allocation / system call
            elif op == "svc":
                st = dict(op="svc", p=args.randrange(len(probs)), form=args.choice(["dict", "model", "vu_dict"]), name=args.choice(STEMS), ints=args.random() < 0.4)
            elif op == "export":
                st = dict(op="export", w=args.randrange(nw), dir=args.choice(["out", "out", "out2"]))
                if fault:
                    st["fault"] = args.choice(["write_error", "missing_dir", "abort"])
                    st["abort_at"] = args.choice([20, 200, 2000, 12000, 30000, 60000])
                    st["abort_exc"] = args.choice([None, None, "memory", "os"])
            elif op == "ctor_run":
                st = dict(op="ctor_run", p=args.randrange(len(probs)), ch=args.choice(["json", "json_vu", "csv_dir", "xlsx"]), stem=args.choice(STEMS), export=args.random() < 0.5)
            elif op == "alloc":
                k = args.choice([2, 3, 5, 12])
                base = [args.choice(HOSTILE_ZONES + SAFE_ZONES) for _ in range(k)]
                labels = [f"{b} - {args.choice(['Direct Integration', 'Total Site Target', 'Total Process Target'])} ({args.choice(['Shifted', 'Real'])})" if args.random() < 0.8 else b for b in base]
                if args.random() < 0.5:
                    labels += labels[: args.randrange(1, len(labels) + 1)]  # exact repeats -> suffixing
                if args.random() < 0.25:
                    # one (long) label many times over: suffixes reach two digits
                    lb = args.choice(labels + [f"{z} - Direct Integration (Real)" for z in LONG_FAMILY[:2]])
                    labels += [lb] * args.choice([9, 11, 14]) + [lb.upper()]
                    args.shuffle(labels)
                if args.random() < 0.35:
                    # literal labels that look like (or truncate to) a name the allocator generates for a collision: "stem (2)"
                    lb = args.choice(labels)
                    k_ = args.choice([2, 2, 3, 10])
                    lits = [lb[: 31 - len(f" ({k_})")] + f" ({k_})", lb[: 31 - len(f" ({k_})")] + f" ({k_}) revamp", lb + f" ({k_})"]
                    for lit in args.sample(lits, args.choice([1, 2])):
                        labels.insert(args.randrange(len(labels) + 1), lit)
                    labels += [lb] * args.choice([1, 2, 3])
                st = dict(op="alloc", labels=labels)
            elif op == "clock":
                st = dict(op="clock", dt=args.choice([0, 0, 1, 61, 86400, -1, -7200]))
            elif op == "reload":
                # the file of the latest file-channel load, left exactly as it is on disk, is loaded again (on this or another wrapper),
                # optionally after the caller edited in place the dictionary the earlier load handed out
                st = dict(op="reload", w=args.randrange(nw), edit=args.random() < 0.6, fresh_wrapper=args.random() < 0.3)
                follow_with_target = True
            else:
                st = dict(op="xlsb", i=args.randrange(64))
            st["client"] = c
            steps.append(st)
            if follow_with_target:
                steps.append(dict(op="target", w=st["w"], twice=False, client=c))
        return dict(swarm=swarm, problems=probs, steps=steps)

    def nontrivial(self, trace):
        ops_ = [s for s in trace["steps"]]
        return len(ops_) >= 2 and any((s["op"] == "load" and s["ch"] in FILE_CHANNELS) or s["op"] in ("export", "ctor_run") for s in ops_)

    # ---------------------------------------------------------------- execution
    def execute(self, trace):
        import pathlib

        import pandas as pd
        from OpenPinch.classes.pinch_problem import PinchProblem
        from OpenPinch.lib.schema import TargetInput
        from OpenPinch.main import pinch_analysis_service

        probs = trace["problems"]
        viol, log = [], []
        stats = dict(ops={}, pairs={}, probes={}, checks={}, faults={})
        states = set()
        seen_v = set()

        def probe(name, n=1):
            stats["probes"][name] = stats["probes"].get(name, 0) + n

        def tick(name):
            stats["checks"][name] = stats["checks"].get(name, 0) + 1

        def fault_fired(name):
            stats["faults"][name] = stats["faults"].get(name, 0) + 1

        def V(check, site, step, detail):
            if (check, site) in seen_v:
                return
            seen_v.add((check, site))
            viol.append(dict(check=check, site=site, step=step, detail=detail))

        scratch = make_scratch("c16")
        clock = SimClock()
        clock.install()

        # ---- read / write fault seams (one-shot, armed by the step about to run)
        armed = dict(read=False, write=False, fired=False)
        real = dict(open=pathlib.Path.open, read_csv=pd.read_csv, read_excel=pd.read_excel, ExcelFile=pd.ExcelFile, ExcelWriter=pd.ExcelWriter)

        def maybe_read_fault(target):
            if armed["read"] and str(target).startswith(scratch):
                armed["read"] = False
                armed["fired"] = True
                raise OSError(5, "simulated I/O error", str(target))

        def p_open(self, *a, **k):
            maybe_read_fault(self)
            return real["open"](self, *a, **k)

        def p_read_csv(f, *a, **k):
            maybe_read_fault(f)
            return real["read_csv"](f, *a, **k)

        def p_read_excel(f, *a, **k):
            if not isinstance(f, real["ExcelFile"]):
                maybe_read_fault(f)
            return real["read_excel"](f, *a, **k)

        class P_ExcelFile(real["ExcelFile"]):
            def __init__(self, f, *a, **k):
                maybe_read_fault(f)
                super().__init__(f, *a, **k)

        def p_writer(path, *a, **k):
            if armed["write"]:
                armed["write"] = False
                armed["fired"] = True
                raise OSError(28, "No space left on device (simulated)", str(path))
            return real["ExcelWriter"](path, *a, **k)

        pathlib.Path.open = p_open
        pd.read_csv, pd.read_excel, pd.ExcelFile, pd.ExcelWriter = p_read_csv, p_read_excel, P_ExcelFile, p_writer

        # ---- reference results (plain dict through the service) cached per (problem variant, name)
        ref_cache = {}

        def tweaked(data):
            d = copy.deepcopy(data)
            hf = d["streams"][0]["heat_flow"]
            txt = repr(hf)
            lead = txt[0]
            d["streams"][0]["heat_flow"] = float(("7" if lead != "7" else "3") + txt[1:]) if lead.isdigit() and lead != "0" else hf
            return d

        def variant(p, keep=None, tweak=False, norm=False):
            base_ = tweaked(probs[p]["data"]) if tweak else probs[p]["data"]
            d = materialize(xlsx_normalised(base_) if norm else base_)
            if keep is not None:
                d["streams"] = d["streams"][:keep]
            return d

        def reference(p, name, keep=None, no_options=False, tweak=False, norm=False):
            k = (p, name, keep, no_options, tweak, norm)
            if k not in ref_cache:
                d = variant(p, keep, tweak, norm)
                if no_options:
                    d.pop("options", None)
                kind, val = run_plain(lambda: pinch_analysis_service(d, project_name=name))
                ref_cache[k] = (kind, simplify_output(val) if kind == "ok" else type(val).__name__, val.model_dump_json() if kind == "ok" else None)
            return ref_cache[k]

        n_w = trace.get("swarm", {}).get("n_wrappers", 1)
        wrappers = [PinchProblem() for _ in range(n_w)]
        last_file = {}
        model = [dict(loaded=None, keep=None, no_options=False, cached=False, last=None, ch=None, failed_load=False, exact=False, tweak=False) for _ in range(n_w)]
        prev_op = None
        fault_in_force = "none"

        def judge_result(step, w_i, res, site_op):
            m = model[w_i]
            name = getattr(res, "name", None)
            if m.get("alts"):
                # one or more loads on this wrapper were interrupted part-way: it may hold the problem loaded before or any of the
                # interrupted ones - each of them completely, never a mixture.  The first candidate the result agrees with is
                # adopted as what the wrapper holds; if none agrees the result is judged against the problem loaded before.
                got_ = simplify_output(res)
                for cand_ in ([dict(m)] if m["loaded"] is not None else []) + list(m["alts"]):
                    k_, ref_, _t = reference(cand_["loaded"], name, cand_["keep"], cand_["no_options"], cand_.get("tweak", False), cand_.get("ch") == "xlsx")
                    if k_ == "ok":
                        loss_ = cand_["ch"] != "xlsx" or survives_15_digits(probs[cand_["loaded"]]["data"])
                        if not compare_outputs(got_, ref_, total_duty(probs[cand_["loaded"]]["data"]), exact=loss_, graph_tol=(0.011 if loss_ else None)):
                            if cand_["loaded"] != m["loaded"] or cand_.get("ch") != m.get("ch"):
                                probe("interrupted_load_had_taken_effect")
                            m.update({k__: cand_[k__] for k__ in ("loaded", "keep", "no_options", "tweak", "ch", "exact")})
                            break
                m["alts"] = []
                if m["loaded"] is None:
                    V("channel_eq", f"none|after_interrupted_load|{fault_in_force}", step, "target() after only interrupted loads returned a result that matches none of the problems offered")
                    return
            p = m["loaded"]
            kind, ref, ref_text = reference(p, name, m["keep"], m["no_options"], m.get("tweak", False), m.get("ch") == "xlsx")
            if kind != "ok":
                V("channel_eq", f"{m['ch']}|ref_raises|{fault_in_force}", step, f"wrapper returned a result for problem {p} but the plain-dict service raises {ref}")
                return
            got = simplify_output(res)
            tick("channel_eq")
            lossless = m["ch"] != "xlsx" or survives_15_digits(probs[p]["data"])
            # a workbook cell keeps 15 significant digits: with longer numbers the workbook describes a problem that differs in the
            # last bit, so targets are compared within 1e-9 of total duty and the (threshold-sensitive) graph payloads not at all
            d = compare_outputs(got, ref, total_duty(probs[p]["data"]), exact=lossless, graph_tol=(0.011 if lossless else None))
            if d:
                V("channel_eq", f"{m['ch']}|{d[0]}|{fault_in_force}", step, f"channel {m['ch']} vs plain dict through the service: {d[1]}")
            elif m["exact"]:
                tick("wrapper_eq_service")
                if res.model_dump_json() != ref_text:
                    V("wrapper_eq_service", f"{m['ch']}|text|{fault_in_force}", step, "in-memory channel through the wrapper is not byte-identical to the service result")

        try:
            for step, st in enumerate(trace["steps"]):
                op = st["op"]
                stats["ops"][op] = stats["ops"].get(op, 0) + 1
                if prev_op:
                    stats["pairs"][prev_op + ">" + op] = stats["pairs"].get(prev_op + ">" + op, 0) + 1
                prev_op = op
                outcome = None
                armed.update(read=False, write=False, fired=False)
                if op == "clock":
                    clock.advance(st["dt"])
                    if st["dt"] < 0 or st["dt"] >= 3600:
                        fault_fired("clock_jump")
                    outcome = "ok"
                elif op == "load":
                    w_i, p, ch = st["w"] % n_w, st["p"] % len(probs), st["ch"]
                    w, m = wrappers[w_i], model[w_i]
                    prob = probs[p]
                    flt = st.get("fault")
                    keep = None
                    d = os.path.join(scratch, f"in{step}")
                    stem = st["stem"]
                    if st.get("same_path"):
                        d, stem = os.path.join(scratch, "inbox"), "current"
                        if os.path.isdir(d):
                            probe("input_file_rewritten_in_place")
                    os.makedirs(d, exist_ok=True)
                    if ch in ("csv_dir", "csv_tuple", "xlsx") and prob["hostile"]:
                        ch = "json"  # hostile names only through dict/JSON/model channels
                    if stem in HOSTILE_STEMS and not (prob["hostile"] and ch in ("json", "json_vu")):
                        stem = "case"
                    style = dict(dict(units=True, ints=False, bom=False, extra=False, xlsm=False), **(st.get("style") or {}))
                    if has_blanks(prob["data"]):
                        style["units"] = True  # a blank cell only means "default" in a unit-bearing column
                    no_options = ch in ("csv_dir", "csv_tuple") and prob["options"]
                    if flt == "lost_rows" and ch in ("csv_dir", "csv_tuple", "xlsx") and len(prob["data"]["streams"]) > 1:
                        keep = 1 + (st["keep"] - 1) % (len(prob["data"]["streams"]) - 1)
                    tweak = bool(st.get("tweak")) and ch in FILE_CHANNELS
                    data = tweaked(prob["data"]) if tweak else prob["data"]
                    old_stat = None
                    if flt == "same_mtime":
                        flt = None
                        for cand in (os.path.join(d, stem + ".json"), os.path.join(d, stem + ".xlsx"), os.path.join(d, stem, "streams.csv"), os.path.join(d, "s_" + stem + ".csv")):
                            if os.path.exists(cand):
                                old_stat = old_stat or {}
                                old_stat[cand] = os.stat(cand)
                    src = None
                    exact = False
                    if ch == "json" or ch == "json_vu":
                        src = os.path.join(d, stem + ".json")
                        write_json(src, data, vu=(ch == "json_vu"), ints=style["ints"])
                        exact = True
                    elif ch == "csv_dir":
                        src = os.path.join(d, stem)
                        write_csv(src, data, keep, **{k_: v_ for k_, v_ in style.items() if k_ != "xlsm"})
                    elif ch == "csv_tuple":
                        src = write_csv(os.path.join(d, stem), data, keep, names=("s_" + stem + ".csv", "u_" + stem + ".csv"), **{k_: v_ for k_, v_ in style.items() if k_ != "xlsm"})
                    elif ch == "xlsx":
                        src = os.path.join(d, stem + (".xlsm" if style.get("xlsm") else ".xlsx"))
                        write_xlsx(src, data, keep, units=True, ints=style["ints"], extra=style["extra"])  # the workbook template always carries its units row
                    if src is not None and last_file.get("src") == src:
                        last_file.clear()  # the producer has just rewritten that file: it is no longer "the file as it was loaded"
                    if not style["units"] and ch in ("csv_dir", "csv_tuple"):
                        probe("file_without_units_row")
                    if has_blanks(data) and ch in ("csv_dir", "csv_tuple", "xlsx"):
                        probe("file_with_blank_cells")
                    if old_stat:
                        for cand, stt in old_stat.items():
                            if os.path.exists(cand):
                                os.utime(cand, ns=(stt.st_atime_ns, stt.st_mtime_ns))
                                if os.path.getsize(cand) == stt.st_size:
                                    probe("file_rewritten_same_size_same_mtime")
                        fault_fired("same_mtime")
                    if flt == "torn_file" and ch in ("json", "json_vu", "xlsx"):
                        truncate(src, st["frac"])
                        fault_fired("torn_file")
                    elif flt == "torn_file":
                        flt = None
                    if flt == "lost_rows":
                        if keep is not None:
                            fault_fired("lost_rows")
                        else:
                            flt = None
                    if flt == "read_error" and src is not None:
                        armed["read"] = True
                    elif flt == "read_error":
                        flt = None

                    def do_load():
                        if ch == "dict":
                            # the documented in-memory route for dictionaries
                            nw = PinchProblem.from_json(as_ints(materialize(data)) if style["ints"] else materialize(data))
                            wrappers[w_i] = nw
                            return nw
                        if ch == "from_json":
                            nw = PinchProblem.from_json(vu_problem(data))
                            wrappers[w_i] = nw
                            return nw
                        if ch == "model":
                            return w.load(TargetInput.model_validate(materialize(data)))
                        if ch == "vu_dict":
                            return w.load(TargetInput.model_validate(vu_problem(data)))
                        return w.load(src)

                    if flt == "abort_in_load":
                        n_at = st["abort_at"]
                        if src is not None and ch not in ("dict", "from_json", "model", "vu_dict"):
                            # measure the reader on a throw-away wrapper (deterministic), then interrupt at a fraction of it
                            cnt, tmp_w = LineTracer(None), PinchProblem()  # constructed outside the measured region, like `w`
                            cnt.run(lambda: tmp_w.load(src))
                            n_at = max(1, int(st["frac"] * cnt.n)) if st.get("tail") is None else max(1, cnt.n - st["tail"])
                        tr = LineTracer(n_at, st.get("abort_exc"))
                        kind, val = tr.run(do_load)
                        if not tr.fired:
                            flt = None  # the load finished before the n-th library line: an ordinary load
                        elif kind not in ("abort", "raise"):
                            # swallowed inside the reader, which went on along another path: what the wrapper holds is not constrained
                            probe("abort_swallowed")
                            fault_fired("abort_in_load")
                            m.update(loaded=None, failed_load=True, cached=False, last=None, alts=[], unknown_old=True)
                            fault_in_force = "abort_in_load"
                            log.append([st.get("client", 0), op, "abort_swallowed"])
                            continue
                        else:
                            fault_fired("abort_in_load")
                            if tr.exc:
                                fault_fired("injected_error:" + tr.exc)
                            kind, val = "raise", (val if isinstance(val, Exception) else RuntimeError("SimAbort"))
                            # old or new, never a mixture: the interrupted load may already have taken effect
                            m.setdefault("alts", [])
                            m["alts"] = (m.get("alts") or []) + [dict(loaded=p, keep=keep, no_options=no_options, tweak=tweak, ch=ch, exact=False)]
                    else:
                        kind, val = run_plain(do_load)
                    if armed["fired"]:
                        fault_fired("read_error")
                    fault_in_force = flt or "none"
                    must_fail = flt in ("torn_file", "read_error") and (flt == "torn_file" or armed["fired"])
                    if kind == "ok":
                        probe("loaded_" + ch)
                        if must_fail:
                            tick("load_must_fail")
                            V("load_must_fail", f"{ch}|{flt}", step, f"load through {ch} succeeded although the file was {flt}")
                        if ch in ("dict", "from_json"):
                            model[w_i] = m = dict(loaded=None, keep=None, no_options=False, cached=False, last=None, ch=None, failed_load=False, exact=False)
                        m.update(loaded=p, keep=keep, no_options=no_options, tweak=tweak, cached=False, ch=ch, failed_load=False, unknown_old=False, alts=[], exact=ch in ("dict", "model", "vu_dict", "from_json", "json", "json_vu"))
                        if ch in FILE_CHANNELS and src is not None and not flt:
                            last_file.update(src=src, w=w_i, rec=dict(loaded=p, keep=keep, no_options=no_options, tweak=tweak, ch=ch, exact=ch in ("json", "json_vu")))
                        if m["last"] is not None:
                            probe("reload_on_used_wrapper")
                        outcome = "ok"
                    else:
                        outcome = "raise:" + type(val).__name__
                        if not flt or (flt == "lost_rows"):
                            tick("load_ok")
                            V("load_raises", f"{ch}|{type(val).__name__}|{fault_in_force}", step, f"load through {ch} raised {type(val).__name__}: {str(val)[:160]}")
                        m["failed_load"] = True
                        m["cached"] = False  # whether a failed load drops the cached result is not constrained
                        probe("load_failed_under_fault")
                elif op == "reload":
                    if not last_file.get("src"):
                        outcome = "skip"
                    else:
                        rec, w0 = last_file["rec"], last_file["w"]
                        if st.get("edit") and model[w0].get("loaded") == rec["loaded"] and model[w0].get("ch") == rec["ch"] and not model[w0].get("failed_load"):
                            # the caller edits, in place, the dictionary that load() handed out: its own business, but no later
                            # load of the untouched file may see the edit
                            d_ = wrappers[w0].problem_data
                            if isinstance(d_, dict) and d_.get("streams"):
                                s0 = d_["streams"][0]
                                if isinstance(s0, dict):
                                    hf = s0.get("heat_flow")
                                    if isinstance(hf, dict) and isinstance(hf.get("value"), (int, float)):
                                        hf["value"] = hf["value"] * 3 + 1000.0
                                    elif isinstance(hf, (int, float)):
                                        s0["heat_flow"] = hf * 3 + 1000.0
                                    s0["name"] = "edited by the caller"
                                if len(d_["streams"]) > 1:
                                    d_["streams"].pop()
                                if isinstance(d_.get("utilities"), list) and d_["utilities"]:
                                    d_["utilities"].pop(0)
                                model[w0].update(loaded=None, failed_load=True, cached=False, last=None, alts=[], unknown_old=True)  # not judged until its next load
                                probe("caller_edited_the_loaded_dictionary")
                        w_i = st["w"] % n_w
                        if st.get("fresh_wrapper"):
                            wrappers[w_i] = PinchProblem()
                            model[w_i] = dict(loaded=None, keep=None, no_options=False, cached=False, last=None, ch=None, failed_load=False, exact=False, tweak=False)
                        w, m = wrappers[w_i], model[w_i]
                        kind, val = run_plain(lambda: w.load(last_file["src"]))
                        if os.environ.get("DBG16"):
                            print("RELOAD", last_file, "w0 model", model[w0], file=__import__("sys").stderr)
                        probe("unchanged_file_loaded_again")
                        if kind == "ok":
                            m.update(rec, cached=False, failed_load=False, unknown_old=False, alts=[])
                            outcome = "ok"
                        else:
                            tick("load_ok")
                            V("load_raises", f"{rec['ch']}|{type(val).__name__}|reload", step, f"loading the unchanged file again raised {type(val).__name__}: {str(val)[:160]}")
                            m["failed_load"] = True
                            m["cached"] = False
                            outcome = "raise:" + type(val).__name__
                elif op == "target":
                    w_i = st["w"] % n_w
                    w, m = wrappers[w_i], model[w_i]
                    if st.get("abort_at") and m["loaded"] is not None and not m["cached"]:
                        tr = LineTracer(st["abort_at"], st.get("abort_exc"))
                        kind, val = tr.run(w.target)
                        if tr.fired and kind != "abort":
                            # swallowed inside the library (a bare / broad except): the call went on along another path, so what
                            # the wrapper holds now is not constrained - nothing is judged on it until the next successful load
                            probe("abort_swallowed")
                            fault_fired("abort")
                            m.update(loaded=None, failed_load=True, cached=False, last=None, alts=[], unknown_old=True)
                            log.append([st.get("client", 0), op, "abort_swallowed"])
                            continue
                        if tr.fired:
                            if tr.exc:
                                fault_fired("injected_error:" + tr.exc)
                            # the analysis was interrupted: nothing may have been cached, and the wrapper must still work
                            fault_fired("abort")
                            fault_in_force = "abort"
                            tick("abort_leaves_no_result")
                            if w.results is not None:
                                V("abort_leaves_no_result", f"{m['ch']}|target", step, "an interrupted target() left a cached result behind")
                            log.append([st.get("client", 0), op, "aborted"])
                            continue
                    else:
                        kind, val = run_plain(w.target)
                    if m["loaded"] is None and not m["failed_load"]:
                        tick("no_input")
                        if not (kind == "raise" and isinstance(val, RuntimeError)):
                            V("no_input", "target_before_load", step, f"target() before any load: {kind} {type(val).__name__}")
                        outcome = "raise:RuntimeError" if kind == "raise" else "ok?"
                    elif m["loaded"] is None and m.get("alts") and kind == "ok" and not m.get("unknown_old"):
                        judge_result(step, w_i, val, op)  # adopts the interrupted load that took effect, or reports
                        if m["loaded"] is not None:
                            m["cached"], m["last"], m["failed_load"] = True, val, False
                        outcome = "ok:" + prng.digest(simplify_output(val))
                    elif m["loaded"] is None:
                        outcome = kind  # only failed loads so far: raising or not is not judged
                        probe("target_after_only_failed_loads")
                    else:
                        if kind == "raise":
                            rk, ref, _ = reference(m["loaded"], "Untitled", m["keep"], m["no_options"])
                            tick("target_ok")
                            if rk == "ok" and not m["failed_load"]:
                                V("target_raises", f"{m['ch']}|{type(val).__name__}|{fault_in_force}", step, f"target() raised {type(val).__name__}: {str(val)[:160]} but the plain-dict service succeeds")
                            outcome = "raise:" + type(val).__name__
                        else:
                            if m["cached"]:
                                tick("cache_identity")
                                if val is not m["last"]:
                                    V("cache_identity", f"{m['ch']}|{fault_in_force}", step, "repeated target() without a load returned a different object")
                            else:
                                judge_result(step, w_i, val, op)
                            m["cached"], m["last"] = True, val
                            outcome = "ok:" + prng.digest(simplify_output(val))
                            if st.get("twice"):
                                kind2, val2 = run_plain(w.target)
                                tick("cache_identity")
                                if kind2 != "ok" or val2 is not val:
                                    V("cache_identity", f"{m['ch']}|{fault_in_force}", step, "second target() did not return the cached object")
                                probe("target_twice")
                elif op == "svc":
                    p = st["p"] % len(probs)
                    data = probs[p]["data"]
                    form = st["form"]
                    if form == "dict":
                        arg = as_ints(materialize(data)) if st.get("ints") else materialize(data)
                    elif form == "model":
                        arg = TargetInput.model_validate(materialize(data))
                    else:
                        arg = vu_problem(data)
                    kind, val = run_plain(lambda: pinch_analysis_service(arg, project_name=st["name"]))
                    rk, ref, ref_text = reference(p, st["name"])
                    tick("vu_eq")
                    if kind != rk:
                        V("vu_eq", f"{form}|outcome", step, f"service({form}) {kind} but plain dict {rk}")
                    elif kind == "ok" and val.model_dump_json() != ref_text:
                        V("vu_eq", f"{form}|text", step, f"service({form}) result is not byte-identical to the plain-dict result")
                    outcome = kind
                elif op == "export":
                    w_i = st["w"] % n_w
                    w, m = wrappers[w_i], model[w_i]
                    out_dir = os.path.join(scratch, st["dir"])
                    flt = st.get("fault")
                    if flt != "missing_dir":
                        os.makedirs(out_dir, exist_ok=True)
                    else:
                        out_dir = os.path.join(scratch, "missing", f"d{step}")
                    if flt == "write_error":
                        armed["write"] = True
                    before = set(os.listdir(out_dir)) if os.path.isdir(out_dir) else set()
                    was_cached, last = m["cached"], m["last"]
                    if flt == "abort":
                        tr = LineTracer(st["abort_at"], st.get("abort_exc"))
                        kind, val = tr.run(lambda: w.export_to_Excel(out_dir))
                        if tr.fired and kind != "abort" and not was_cached:
                            probe("abort_swallowed")
                            fault_fired("abort")
                            m.update(loaded=None, failed_load=True, cached=False, last=None, alts=[], unknown_old=True)
                            log.append([st.get("client", 0), op, "abort_swallowed"])
                            continue
                        if tr.fired:
                            if tr.exc:
                                fault_fired("injected_error:" + tr.exc)
                            fault_fired("abort")
                            fault_in_force = "abort"
                            if was_cached:
                                tick("cache_identity")
                                if w.results is not last:
                                    V("cache_identity", f"{m['ch']}|after_aborted_export", step, "an interrupted export replaced or dropped the cached result")
                            elif w.results is not None and m["loaded"] is not None:
                                # the analysis part had finished before the interruption: the result is cached and must be right
                                judge_result(step, w_i, w.results, op)
                                m["cached"], m["last"] = True, w.results
                            log.append([st.get("client", 0), op, "aborted"])
                            continue
                        flt = None
                    else:
                        kind, val = run_plain(lambda: w.export_to_Excel(out_dir))
                    if armed["fired"]:
                        fault_fired("write_error")
                    if flt == "missing_dir":
                        fault_fired("missing_dir")
                    fault_in_force = flt or "none"
                    if m["loaded"] is None:
                        outcome = kind
                        if kind == "ok":
                            tick("no_input")
                            if not m["failed_load"]:
                                V("no_input", "export_before_load", step, "export succeeded on a wrapper with nothing loaded")
                    elif kind == "ok":
                        probe("export_ok")
                        if w.results is not None and not was_cached:
                            judge_result(step, w_i, w.results, op)
                            m["cached"], m["last"] = True, w.results
                        elif was_cached:
                            tick("cache_identity")
                            if w.results is not last:
                                V("cache_identity", f"{m['ch']}|export", step, "export replaced the cached result")
                        path = str(val)
                        new = (set(os.listdir(out_dir)) - before) if os.path.isdir(out_dir) else set()
                        if not new:
                            probe("export_same_second_overwrite")
                        self._check_workbook(path, step, V, tick, probe, m["ch"], w.results, w.master_zone)
                        outcome = "ok:" + os.path.basename(path)
                    else:
                        outcome = "raise:" + type(val).__name__
                        if not flt:
                            rk, _, _ = reference(m["loaded"], "Untitled", m["keep"], m["no_options"])
                            tick("export_ok")
                            if rk == "ok" and not m["failed_load"]:
                                V("export_raises", f"{m['ch']}|{type(val).__name__}", step, f"export raised {type(val).__name__}: {str(val)[:160]}")
                        else:
                            # after an injected write fault the cached result must be untouched
                            if was_cached:
                                tick("cache_identity")
                                if w.results is not last:
                                    V("cache_identity", f"{m['ch']}|after_write_fault", step, "a failed export replaced the cached result")
                elif op == "ctor_run":
                    p = st["p"] % len(probs)
                    prob = probs[p]
                    ch = st["ch"]
                    if ch in ("csv_dir", "xlsx") and prob["hostile"]:
                        ch = "json"
                    d = os.path.join(scratch, f"in{step}")
                    os.makedirs(d, exist_ok=True)
                    stem = st["stem"]
                    if ch in ("json", "json_vu"):
                        src = os.path.join(d, stem + ".json")
                        write_json(src, prob["data"], vu=(ch == "json_vu"))
                    elif ch == "csv_dir":
                        src = os.path.join(d, stem)
                        write_csv(src, prob["data"])
                    else:
                        src = os.path.join(d, stem + ".xlsx")
                        write_xlsx(src, prob["data"])
                    out_dir = os.path.join(scratch, f"run{step}") if st["export"] else None
                    if out_dir:
                        os.makedirs(out_dir)
                    holder = {}

                    def ctor():
                        holder["w"] = PinchProblem(src, out_dir, run=True)
                        return holder["w"].results

                    kind, val = run_plain(ctor)
                    no_opt = ch == "csv_dir" and prob["options"]
                    if kind == "ok":
                        rk, ref, _ = reference(p, getattr(val, "name", None), None, no_opt, False, ch == "xlsx")
                        tick("channel_eq")
                        if rk != "ok":
                            V("channel_eq", f"ctor_{ch}|ref_raises|none", step, "run=True constructor succeeded but the plain-dict service raises")
                        else:
                            lossless = ch != "xlsx" or survives_15_digits(prob["data"])
                            dd = compare_outputs(simplify_output(val), ref, total_duty(prob["data"]), exact=lossless, graph_tol=(0.011 if lossless else None))
                            if dd:
                                V("channel_eq", f"ctor_{ch}|{dd[0]}|none", step, f"run=True constructor via {ch} vs plain dict: {dd[1]}")
                        if out_dir:
                            files = os.listdir(out_dir)
                            tick("ctor_exports")
                            if len(files) != 1:
                                V("ctor_exports", f"ctor_{ch}", step, f"run=True with a results directory wrote {len(files)} files")
                            else:
                                self._check_workbook(os.path.join(out_dir, files[0]), step, V, tick, probe, "ctor_" + ch, val, holder["w"].master_zone)
                        probe("ctor_run_" + ch)
                        outcome = "ok"
                    else:
                        rk, _, _ = reference(p, stem, None, no_opt, False, ch == "xlsx")
                        tick("ctor_ok")
                        if rk == "ok":
                            V("ctor_raises", f"ctor_{ch}|{type(val).__name__}", step, f"run=True constructor via {ch} raised {type(val).__name__}: {str(val)[:120]} ({str(getattr(val, '__cause__', ''))[:120]})")
                        outcome = "raise:" + type(val).__name__
                elif op == "alloc":
                    outcome = self._alloc(st["labels"], step, V, tick, probe)
                elif op == "xlsb":
                    outcome = self._xlsb(st["i"], step, V, tick, probe, PinchProblem, pinch_analysis_service)
                log.append([st.get("client", 0), op, outcome])
                states.add(prng.digest([[(m["loaded"] is not None, m["ch"], m["cached"], m["failed_load"]) for m in model], fault_in_force]))
                if len(viol) >= 6:
                    break
        finally:
            pathlib.Path.open = real["open"]
            pd.read_csv, pd.read_excel, pd.ExcelFile, pd.ExcelWriter = real["read_csv"], real["read_excel"], real["ExcelFile"], real["ExcelWriter"]
            drop_scratch(scratch)
        stats["extra"] = dict(clock_reads=clock.reads, clock_jumps=clock.jumps)
        return dict(violations=viol[:8], digest=prng.digest(log), steps=len(log), stats=stats, states=sorted(states), interleaving=prng.digest([[s.get("client", 0), s["op"]] for s in trace["steps"]]), sim_time=clock.span)

    # ---------------------------------------------------------------- sub-checks
    @staticmethod
    def _sheet_rules(names, site, step, V, tick, probe):
        tick("sheet_names")
        if len(set(names)) != len(names):
            V("sheet_names", site + "|duplicate", step, f"sheet names not unique: {names[:6]}")
        for n in names:
            if not n:
                V("sheet_names", site + "|empty", step, "empty sheet name")
            elif len(n) > 31:
                V("sheet_names", site + "|too_long", step, f"sheet name of {len(n)} characters: {n!r}")
            elif set(n) & FORBIDDEN:
                V("sheet_names", site + "|forbidden_char", step, f"sheet name contains a character Excel forbids: {n!r}")
        low = [n.lower() for n in names]
        if len(set(low)) != len(low):
            probe("sheet_names_case_insensitive_clash")
        if any(n.startswith("'") or n.endswith("'") for n in names):
            probe("sheet_name_edge_apostrophe")

    @staticmethod
    def _count_tables(zone, depth=0):
        """Number of non-empty shifted/real problem tables hanging off an analysed zone tree."""
        if zone is None or depth > 12:
            return 0
        n = 0
        for t in (getattr(zone, "targets", {}) or {}).values():
            for attr in ("pt", "pt_real"):
                data = getattr(getattr(t, attr, None), "data", None)
                if data is not None and getattr(data, "size", 0) > 0:
                    n += 1
        for z in (getattr(zone, "subzones", {}) or {}).values():
            n += C16._count_tables(z, depth + 1)
        return n

    def _check_workbook(self, path, step, V, tick, probe, ch, result=None, master_zone=None):
        import openpyxl

        expected_tables = self._count_tables(master_zone) if master_zone is not None else None

        try:
            wb = openpyxl.load_workbook(path, read_only=True)
            names = list(wb.sheetnames)
            summary = None
            if result is not None and "Summary" in names:
                summary = [row[0] for row in wb["Summary"].iter_rows(min_row=2, max_col=1, values_only=True)]
            wb.close()
            if expected_tables is not None:
                tick("sheet_count")
                if len(names) != 1 + expected_tables:
                    V("sheet_names", f"export|sheet_count", step, f"workbook holds {len(names)} sheets but the analysed zone tree has {expected_tables} non-empty problem tables (+ Summary): a table was dropped or overwritten")
            if summary is not None:
                tick("export_matches_result")
                want = [t.name for t in result.targets]
                if [x for x in summary if x is not None] != want:
                    V("export_matches_result", f"{ch}|summary_rows", step, f"exported Summary lists {summary[:4]}… but the wrapper's result holds {want[:4]}…")
        except Exception as e:
            V("sheet_names", f"export|unreadable|{type(e).__name__}", step, f"exported workbook cannot be re-opened: {e}")
            return
        probe("workbook_reopened")
        if len(names) > 8:
            probe("workbook_many_sheets")
        self._sheet_rules(names, "export", step, V, tick, probe)

    def _alloc(self, labels, step, V, tick, probe):
        try:
            from OpenPinch.utils.export import _unique_sheet_name
        except ImportError:
            probe("allocator_not_importable")
            return "skip"
        used = set()
        out = []
        for lb in labels:
            try:
                out.append(_unique_sheet_name(lb, used))
            except Exception as e:
                V("sheet_names", f"alloc|raises|{type(e).__name__}", step, f"sheet-name allocation raised for {lb!r}: {e}")
                return "raise"
        if any(len(lb) > 31 for lb in labels):
            probe("alloc_truncation")
        if len(set(labels)) != len(labels):
            probe("alloc_suffixing")
        self._sheet_rules(out, "alloc", step, V, tick, probe)
        return "ok:" + prng.digest(out)

    def _xlsb(self, i, step, V, tick, probe, PinchProblem, service):
        import glob

        repo = os.environ.get("VERIF_REPO", "/repo")
        pairs = []
        for f in sorted(glob.glob(os.path.join(repo, "OpenPinch/examples/OpenPinchWkbs/*.xlsb"))):
            twin = os.path.join(repo, "OpenPinch/examples/stream_data", "p_" + os.path.basename(f)[:-5] + ".json")
            if os.path.exists(twin) and os.path.getsize(f) < 3_000_000:
                pairs.append((f, twin))
        if not pairs:
            return "skip"
        f, twin = pairs[i % len(pairs)]
        kind, val = run_plain(lambda: PinchProblem(f, None, run=True).results)
        prob = json.load(open(twin))
        rk, ref = run_plain(lambda: service(prob, project_name=os.path.basename(f)[:-5]))
        tick("xlsb_twin")
        probe("xlsb_loaded")
        if kind != rk:
            V("channel_eq", f"xlsb|outcome|none", step, f"{os.path.basename(f)}: workbook {kind}, JSON twin {rk}")
            return kind
        if kind == "ok":
            a, b = simplify_output(val), simplify_output(ref)
            scale = 1e3 * total_duty(problems.plain_numbers(prob))  # shipped twins agree to 1e-6 of total duty
            d = compare_outputs(a, b, scale, graph_tol=None)
            if d and d[0] not in ("record_names", "name", "graph_keys", "hot_utility_names", "cold_utility_names"):
                V("channel_eq", f"xlsb|{d[0]}|none", step, f"{os.path.basename(f)} vs its JSON twin: {d[1]}")
        return kind

    # ---------------------------------------------------------------- shrinking
    def simplify(self, trace):
        for k, st in enumerate(trace["steps"]):
            if st.get("fault"):
                t = copy.deepcopy(trace)
                del t["steps"][k]["fault"]
                yield t
            if st["op"] == "alloc" and len(st["labels"]) > 1:
                for j in range(len(st["labels"])):
                    t = copy.deepcopy(trace)
                    del t["steps"][k]["labels"][j]
                    yield t
            if st["op"] == "target" and st.get("twice"):
                t = copy.deepcopy(trace)
                t["steps"][k]["twice"] = False
                yield t
        for i, pr in enumerate(trace["problems"]):
            for sp in problems.simplify(pr["data"]):
                if any(z != "A" for z in {s["zone"] for s in sp["streams"]}) or True:
                    t = copy.deepcopy(trace)
                    t["problems"][i]["data"] = sp
                    t["problems"][i]["options"] = bool(sp.get("options"))
                    yield t

    def warnings(self, stats, tier):
        out = []
        for ch in FILE_CHANNELS + ["model", "vu_dict"]:
            if not stats.get("probes", {}).get("loaded_" + ch):
                out.append(f"channel {ch} never loaded successfully")
        for f in self.fault_kinds:
            if not stats.get("faults", {}).get(f):
                out.append(f"fault kind {f} never fired")
        for p in ("export_ok", "workbook_reopened", "alloc_suffixing", "alloc_truncation", "reload_on_used_wrapper"):
            if not stats.get("probes", {}).get(p):
                out.append(f"probe {p} never hit")
        return out


WORLD = C16()
