"""Seams owned by the simulator inside one simulated node (process):
abort injection (sys.settrace), simulated clock, scratch disk, pristine-fork oracle.
"""
from __future__ import annotations

import datetime as _dt
import json
import os
import select
import shutil
import signal
import sys
import tempfile
import time

REPO = os.path.realpath(os.environ.get("VERIF_REPO", "/repo"))
LIB_PREFIX = os.path.join(REPO, "OpenPinch") + os.sep


class SimAbort(BaseException):
    """Injected abort (the moral equivalent of Ctrl-C / MemoryError / a timeout wrapper)."""


INJECTED_ERRORS = {
    # ordinary exceptions, as a failing allocation / system call would raise them in the middle of a call: unlike SimAbort
    # (a BaseException, like Ctrl-C) these travel through the library's own `except Exception` handlers
    "memory": lambda n: MemoryError(f"injected allocation failure at library line #{n}"),
    "os": lambda n: OSError(12, f"injected system-call failure at library line #{n}"),
}


class LineTracer:
    """Counts 'line' events in frames of /repo/OpenPinch; at the n-th raises SimAbort (exc=None) or an injected ordinary
    exception (exc='memory' | 'os').  n=None: count only."""

    def __init__(self, abort_at=None, exc=None):
        self.n = 0
        self.abort_at = abort_at
        self.exc = exc
        self.injected = None
        self.fired = False
        self.where = None

    def _local(self, frame, event, arg):
        if event == "line":
            self.n += 1
            if self.abort_at is not None and self.n >= self.abort_at and not self.fired:
                self.fired = True
                self.where = (frame.f_code.co_filename[len(LIB_PREFIX):], frame.f_code.co_name)
                if self.exc:
                    self.injected = INJECTED_ERRORS[self.exc](self.n)
                    raise self.injected
                raise SimAbort(f"abort at library line #{self.n}")
        return self._local

    def _global(self, frame, event, arg):
        if frame.f_code.co_filename.startswith(LIB_PREFIX):
            return self._local
        return None

    def _came_from_injection(self, e):
        seen = 0
        while e is not None and seen < 50:
            if e is self.injected:
                return True
            e, seen = (e.__cause__ or e.__context__), seen + 1
        return False

    def run(self, fn):
        """Run fn() traced.  Returns (kind, value): ok / raise / abort.  'abort' = the injected exception (SimAbort, or the
        injected ordinary exception, possibly wrapped by the library with `raise ... from`) came out of the call.  A caller
        seeing `fired` with another kind knows the injection was swallowed inside the library."""
        old = sys.gettrace()
        sys.settrace(self._global)
        try:
            try:
                return ("ok", fn())
            finally:
                sys.settrace(old)
        except SimAbort:
            return ("abort", None)
        except Exception as e:
            if self.injected is not None and self._came_from_injection(e):
                return ("abort", e)
            return ("raise", e)


def run_plain(fn):
    try:
        return ("ok", fn())
    except Exception as e:
        return ("raise", e)


# ------------------------------------------------------------------------------------------- clock
class SimClock:
    """Simulated wall clock; replaces the `datetime` name imported by OpenPinch.utils.export."""

    def __init__(self, start=1_800_000_000.0):
        self.now_s = start
        self.t0 = start
        self.lo = self.hi = start
        self.reads = 0
        self.jumps = 0

    def advance(self, dt):
        self.now_s += dt
        self.lo, self.hi = min(self.lo, self.now_s), max(self.hi, self.now_s)
        if dt < 0 or dt > 3600:
            self.jumps += 1

    def install(self):
        """Put the simulated clock behind every wall-clock name the library's modules hold: `datetime.datetime`,
        `datetime.date`, the `datetime` / `time` modules themselves, and functions imported from `time`."""
        import sys
        import time as _time
        import types

        clock = self

        def _now():
            clock.reads += 1
            return _dt.datetime.fromtimestamp(clock.now_s, tz=_dt.timezone.utc).replace(tzinfo=None)

        class _DT(_dt.datetime):
            @classmethod
            def now(cls, tz=None):
                return _now()

            @classmethod
            def utcnow(cls):
                return _now()

            @classmethod
            def today(cls):
                return _now()

        class _D(_dt.date):
            @classmethod
            def today(cls):
                return _now().date()

        dt_proxy = types.SimpleNamespace(**{k: getattr(_dt, k) for k in dir(_dt) if not k.startswith("__")})
        dt_proxy.datetime, dt_proxy.date = _DT, _D

        def _sim_time():
            clock.reads += 1
            return clock.now_s

        time_proxy = types.SimpleNamespace(**{k: getattr(_time, k) for k in dir(_time) if not k.startswith("__")})
        time_proxy.time = _sim_time
        time_proxy.time_ns = lambda: int(_sim_time() * 1e9)
        time_proxy.localtime = lambda *a: _time.gmtime(_sim_time()) if not a else _time.localtime(*a)
        time_proxy.gmtime = lambda *a: _time.gmtime(_sim_time()) if not a else _time.gmtime(*a)
        time_proxy.strftime = lambda fmt, t=None: _time.strftime(fmt, t if t is not None else _time.gmtime(_sim_time()))
        for mname, mod in list(sys.modules.items()):
            if mod is None or not (mname == "OpenPinch" or mname.startswith("OpenPinch.")):
                continue
            for name, val in list(vars(mod).items()):
                if val is _dt.datetime:
                    setattr(mod, name, _DT)
                elif val is _dt.date:
                    setattr(mod, name, _D)
                elif val is _dt:
                    setattr(mod, name, dt_proxy)
                elif val is _time:
                    setattr(mod, name, time_proxy)
                elif val is _time.time:
                    setattr(mod, name, _sim_time)

    @property
    def span(self):
        return self.hi - self.lo


# ------------------------------------------------------------------------------------------- disk
def make_scratch(tag):
    base = "/dev/shm" if os.path.isdir("/dev/shm") and os.access("/dev/shm", os.W_OK) else tempfile.gettempdir()
    return tempfile.mkdtemp(prefix=f"op_{tag}_", dir=base)


def drop_scratch(path):
    shutil.rmtree(path, ignore_errors=True)


# ------------------------------------------------------------------------------------------- oracle
def fork_call(fn, timeout=120.0):
    """Run fn() in a fork of the *current* process and return its JSON-able result.
    Used from a node that has not yet executed anything: the fork is then a pristine node."""
    rfd, wfd = os.pipe()
    pid = os.fork()
    if pid == 0:
        code = 0
        try:
            os.close(rfd)
            try:
                res = {"ok": fn()}
            except BaseException as e:
                res = {"err": f"{type(e).__name__}: {e}"}
            with os.fdopen(wfd, "wb") as w:
                w.write(json.dumps(res, default=repr).encode())
        except BaseException:
            code = 3
        finally:
            os._exit(code)
    os.close(wfd)
    buf = []
    deadline = time.monotonic() + timeout
    while True:
        left = deadline - time.monotonic()
        if left <= 0:
            os.kill(pid, signal.SIGKILL)
            os.waitpid(pid, 0)
            os.close(rfd)
            raise RuntimeError("oracle fork timed out")
        r, _, _ = select.select([rfd], [], [], min(left, 1.0))
        if r:
            chunk = os.read(rfd, 1 << 20)
            if not chunk:
                break
            buf.append(chunk)
    os.close(rfd)
    os.waitpid(pid, 0)
    res = json.loads(b"".join(buf))
    if "err" in res:
        raise RuntimeError("oracle fork failed: " + res["err"])
    return res["ok"]
