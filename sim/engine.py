"""Deterministic-simulation runner shared by all worlds.

Process model
-------------
The *controller* (this process) imports OpenPinch from /repo once and never calls
into it.  Every run (or chunk of runs) executes in a child forked from the
controller, i.e. in a node whose module state is exactly that of a process that
has just imported the library.  Children report over a pipe and die; nothing they
did survives.  The controller only schedules, shrinks, replays and writes evidence.

Exit codes: 0 held / only known findings; 1 violation (with VIOLATION line);
2 harness error (never accompanied by a VIOLATION line).
"""
from __future__ import annotations

import collections
import json
import os
import select
import signal
import subprocess
import sys
import time
import traceback

from . import prng

VERIF = os.path.dirname(os.path.dirname(os.path.abspath(__file__)))
REPO = os.environ.get("VERIF_REPO", "/repo")
KNOWN_FILE = os.path.join(VERIF, "known_findings.txt")


class HarnessError(Exception):
    pass


# --------------------------------------------------------------------------- world base


class World:
    pid = "C00"
    chunk = 50  # runs per forked child
    run_timeout = 10.0  # wall seconds allowed per run (generous; hang guard only)
    quick = dict(runs=2000, budget_s=60)
    thorough = dict(runs=200000, budget_s=900)
    components_real: list[str] = []
    components_stub: list[str] = []
    rule = ""
    assumptions: list[str] = []
    fault_kinds: list[str] = []
    state_abstraction = ""
    tier = "quick"
    selftest_n = dict(quick=(24, 16), thorough=(200, 64))  # (re-executions, fresh-interpreter runs)

    def setup_node(self):
        """Called once in every forked child before any run."""

    def generate(self, seed: int, run: int) -> dict:
        raise NotImplementedError

    def execute(self, trace: dict) -> dict:
        raise NotImplementedError

    def nontrivial(self, trace: dict) -> bool:
        return len(trace.get("steps", [])) >= 2

    def simplify(self, trace: dict):
        """Yield world-specific simpler variants of a trace (after step ddmin)."""
        return ()

    def warnings(self, stats: dict, tier: str) -> list[str]:
        return []

    def extra_selftests(self, ctl: "Controller") -> dict:
        return {}


# --------------------------------------------------------------------------- known findings


def load_known(pid: str):
    """Parse known_findings.txt.  Lines:
    open: property=<id> check=<check> site=<site key> :: <what fails>
    fixed: property=<id> <commit> <what failed>
    Only `open` lines suppress anything."""
    out = []
    if not os.path.exists(KNOWN_FILE):
        return out
    for line in open(KNOWN_FILE, encoding="utf-8"):
        line = line.strip()
        if not line.startswith("open:"):
            continue
        head, _, what = line[5:].partition("::")
        kv = dict(tok.split("=", 1) for tok in head.split() if "=" in tok)
        if kv.get("property") == pid:
            out.append(dict(check=kv.get("check"), site=kv.get("site"), what=what.strip()))
    return out


def match_known(known, v):
    for k in known:
        if k["check"] == v["check"] and k["site"] == v["site"]:
            return k
    return None


# --------------------------------------------------------------------------- child plumbing


def _child_main(fn, wfd):
    """Run fn() in the forked child, send its JSON result, never return."""
    code = 0
    try:
        signal.signal(signal.SIGINT, signal.SIG_DFL)
        try:
            res = {"ok": fn()}
        except BaseException as e:  # harness error inside the child
            res = {"err": f"{type(e).__name__}: {e}", "tb": traceback.format_exc()}
        data = json.dumps(res, default=repr).encode()
        with os.fdopen(wfd, "wb") as w:
            w.write(data)
    except BaseException:
        code = 3
    finally:
        os._exit(code)


class Child:
    __slots__ = ("pid", "rfd", "buf", "deadline", "tag", "t0")

    def __init__(self, fn, timeout, tag=None):
        rfd, wfd = os.pipe()
        sys.stdout.flush()
        sys.stderr.flush()
        pid = os.fork()
        if pid == 0:
            os.close(rfd)
            _child_main(fn, wfd)
        os.close(wfd)
        self.pid, self.rfd, self.buf, self.tag = pid, rfd, [], tag
        self.t0 = time.monotonic()
        self.deadline = self.t0 + timeout

    def kill(self):
        try:
            os.kill(self.pid, signal.SIGKILL)
        except ProcessLookupError:
            pass
        try:
            os.waitpid(self.pid, 0)
        except ChildProcessError:
            pass
        os.close(self.rfd)


def run_children(jobs, workers, on_result, stop=lambda: False):
    """jobs: iterator of (tag, fn, timeout).  on_result(tag, result|None, err|None).
    Keeps up to `workers` forked children alive.  A child that times out or dies
    without an answer yields err."""
    active: dict[int, Child] = {}
    jobs = iter(jobs)
    exhausted = False
    while True:
        while not exhausted and len(active) < workers and not stop():
            try:
                tag, fn, timeout = next(jobs)
            except StopIteration:
                exhausted = True
                break
            c = Child(fn, timeout, tag)
            active[c.rfd] = c
        if not active:
            if exhausted or stop():
                return
            continue
        r, _, _ = select.select(list(active), [], [], 0.25)
        now = time.monotonic()
        for fd in r:
            c = active[fd]
            chunk = os.read(fd, 1 << 20)
            if chunk:
                c.buf.append(chunk)
                continue
            del active[fd]
            os.close(fd)
            _, status = os.waitpid(c.pid, 0)
            raw = b"".join(c.buf)
            try:
                res = json.loads(raw)
            except Exception:
                res = {"err": f"child died without result (status {status}, {len(raw)} bytes)"}
            if "ok" in res:
                on_result(c.tag, res["ok"], None)
            else:
                on_result(c.tag, None, res.get("err", "?") + "\n" + res.get("tb", ""))
        for fd, c in list(active.items()):
            if now > c.deadline:
                del active[fd]
                c.kill()
                on_result(c.tag, None, f"timeout after {now - c.t0:.0f}s")


def call_in_child(fn, timeout):
    out = {}

    def on(tag, res, err):
        out["res"], out["err"] = res, err

    run_children([(0, fn, timeout)], 1, on)
    if out.get("err"):
        raise HarnessError(out["err"])
    return out["res"]


# --------------------------------------------------------------------------- controller


def _merge(dst: dict, src: dict):
    for k, v in src.items():
        if isinstance(v, dict):
            _merge(dst.setdefault(k, {}), v)
        elif isinstance(v, (int, float)):
            dst[k] = dst.get(k, 0) + v


class Controller:
    def __init__(self, world: World, tier: str, seed: int, workers: int):
        self.w, self.tier, self.seed, self.workers = world, tier, seed, workers
        self.known = load_known(world.pid)
        self.stats: dict = {}
        self.trace_hashes: set[str] = set()
        self.nontrivial_hashes: set[str] = set()
        self.states: set[str] = set()
        self.interleavings: set[str] = set()
        self.samples: list = []
        self.runs = 0
        self.steps = 0
        self.sim_time = 0.0
        self.violations: list[dict] = []  # unknown
        self.known_seen: dict[tuple, dict] = {}
        self.errors: list[str] = []
        self.digests: dict[int, str] = {}
        self.aux: list = []

    # ---- one chunk, executed inside a forked child
    def _chunk_fn(self, run_indices, keep_digests=False):
        w, seed = self.w, self.seed

        def run_one(ri):
            rs = prng.run_seed(w.pid, seed, ri)
            trace = w.generate(rs, ri)
            trace.setdefault("property", w.pid)
            trace["verif_seed"], trace["run"], trace["run_seed"] = seed, ri, rs
            res = w.execute(trace)
            th = prng.digest([trace.get("problems"), trace["steps"]])
            rec = dict(
                run=ri,
                th=th,
                nt=bool(w.nontrivial(trace)),
                dg=res["digest"],
                steps=res.get("steps", len(trace["steps"])),
                stats=res.get("stats", {}),
                states=res.get("states", []),
                il=res.get("interleaving"),
                sim_time=res.get("sim_time", 0.0),
                viol=res["violations"],
            )
            if res.get("aux") is not None:
                rec["aux"] = res["aux"]
            if res["violations"] or ri < 8:
                rec["trace"] = trace
            return rec

        def fn():
            w.setup_node()
            if len(run_indices) == 1:
                return [run_one(run_indices[0])]
            # every run executes in its own fork of this (never-executing, hence pristine) chunk process,
            # so that no run can inherit state from an earlier one and every replay starts from the same node
            from .node import fork_call

            return [fork_call(lambda ri=ri: run_one(ri), timeout=w.run_timeout + 30) for ri in run_indices]

        return fn

    def _absorb(self, recs):
        for rec in recs:
            self.runs += 1
            self.steps += rec["steps"]
            self.sim_time += rec["sim_time"]
            self.trace_hashes.add(rec["th"])
            if rec["nt"]:
                self.nontrivial_hashes.add(rec["th"])
            _merge(self.stats, rec["stats"])
            if len(self.states) < 2_000_000:
                self.states.update(rec["states"])
            if rec.get("il") and len(self.interleavings) < 2_000_000:
                self.interleavings.add(rec["il"])
            self.digests[rec["run"]] = rec["dg"]
            if rec.get("aux") is not None and len(self.aux) < 2048:
                self.aux.extend(rec["aux"] if isinstance(rec["aux"], list) else [rec["aux"]])
            if "trace" in rec and not rec["viol"] and rec["nt"] and len(self.samples) < 3:
                self.samples.append(_sample_view(rec["trace"]))
            for v in rec["viol"]:
                k = match_known(self.known, v)
                if k is not None:
                    e = self.known_seen.setdefault((v["check"], v["site"]), dict(k, count=0))
                    e["count"] += 1
                else:
                    self.violations.append(dict(v, run=rec["run"], trace=rec["trace"]))

    def batch(self, runs, budget_s):
        w = self.w
        t_end = time.monotonic() + budget_s
        chunks = [list(range(i, min(i + w.chunk, runs))) for i in range(0, runs, w.chunk)]
        retry: list = []

        def jobs():
            for ch in chunks:
                yield (tuple(ch), self._chunk_fn(ch), w.run_timeout * len(ch) + 30)

        def on(tag, res, err):
            if err:
                retry.append((tag, err))
            else:
                self._absorb(res)

        def stop():
            # stop launching once the budget is gone or enough distinct violations are in hand
            return time.monotonic() > t_end or len(self.violations) >= 40

        run_children(jobs(), self.workers, on, stop)
        # a chunk that timed out or died is retried once, alone (load spikes are not findings)
        for tag, err in retry:
            def on2(tag2, res, err2):
                if err2:
                    self.errors.append(f"chunk {tag2[0]}..{tag2[-1]}: {err2.splitlines()[0]} (first: {err.splitlines()[0]})")
                else:
                    self._absorb(res)

            run_children([(tag, self._chunk_fn(list(tag)), w.run_timeout * len(tag) * 2 + 60)], 1, on2)

    # ---- executing an explicit trace in a pristine child
    def exec_trace(self, trace, timeout=None):
        w = self.w

        def fn():
            w.setup_node()
            return w.execute(trace)

        return call_in_child(fn, timeout or (w.run_timeout * 4 + 30))

    # ---- determinism self-test: same seeds again (other chunking, other worker count)
    def determinism_selftest(self, n):
        idx = sorted(self.digests)[:n]
        if not idx:
            return dict(checked=0)
        first = {i: self.digests[i] for i in idx}
        again: dict[int, str] = {}

        def on(tag, res, err):
            if err:
                self.errors.append("determinism selftest child: " + err.splitlines()[0])
            else:
                for rec in res:
                    again[rec["run"]] = rec["dg"]

        # different chunking (reversed singletons / pairs) and a different worker count
        groups = [idx[i : i + 2][::-1] for i in range(0, len(idx), 2)]
        jobs = [(tuple(g), self._chunk_fn(g), self.w.run_timeout * len(g) * 2 + 60) for g in groups]
        run_children(jobs, max(1, self.workers // 3), on)
        bad = [i for i in idx if again.get(i) != first[i]]
        if bad:
            self.errors.append(f"determinism: digests differ on re-execution for runs {bad[:5]}")
        return dict(checked=len(idx), mismatches=len(bad))

    def hashseed_selftest(self, n):
        """Same run indices in a genuinely fresh interpreter under another PYTHONHASHSEED."""
        idx = sorted(self.digests)[:n]
        if not idx:
            return dict(checked=0)
        env = dict(os.environ, PYTHONHASHSEED="4242", VERIF_SEED=str(self.seed))
        cmd = [sys.executable, os.path.join(VERIF, "check"), self.w.pid, "--tier", self.tier, "--digests", ",".join(map(str, idx))]
        try:
            p = subprocess.run(cmd, env=env, capture_output=True, text=True, timeout=600)
            got = json.loads(p.stdout.strip().splitlines()[-1])
        except Exception as e:
            self.errors.append(f"hashseed selftest failed to run: {e}")
            return dict(checked=0)
        bad = [i for i in idx if got.get(str(i)) != self.digests[i]]
        if bad:
            self.errors.append(f"determinism: digests differ in fresh interpreter/PYTHONHASHSEED for runs {bad[:5]}")
        return dict(checked=len(idx), mismatches=len(bad), pythonhashseed=4242)

    # ---- shrinking
    def shrink(self, viol, budget_s=120):
        from .ddmin import shrink_trace

        return shrink_trace(self, viol["trace"], viol["check"], viol["site"], budget_s)


def _sample_view(trace, max_steps=12):
    t = {k: v for k, v in trace.items() if k != "steps"}
    steps = trace["steps"]
    t["steps"] = steps[:max_steps]
    if len(steps) > max_steps:
        t["steps_omitted"] = len(steps) - max_steps
    s = json.dumps(t, default=repr)
    if len(s) > 6000:  # keep evidence readable
        t["steps"] = [_clip(x) for x in t["steps"]]
    return t


def _clip(x, n=300):
    s = json.dumps(x, default=repr)
    return x if len(s) <= n else {"clipped": s[:n] + "…"}


# --------------------------------------------------------------------------- entry point


def check_repo_import():
    import OpenPinch

    f = os.path.realpath(OpenPinch.__file__)
    if not f.startswith(os.path.realpath(REPO) + os.sep):
        raise HarnessError(f"OpenPinch imported from {f}, not from {REPO}")


def main(world: World, argv):
    import argparse

    ap = argparse.ArgumentParser()
    ap.add_argument("--tier", default=os.environ.get("VERIF_TIER", "quick"), choices=["quick", "thorough"])
    ap.add_argument("--replay")
    ap.add_argument("--runs", type=int)
    ap.add_argument("--budget", type=float)
    ap.add_argument("--workers", type=int, default=int(os.environ.get("VERIF_WORKERS", os.cpu_count() or 4)))
    ap.add_argument("--digests", help="internal: print digests of the given run indices")
    ap.add_argument("--no-selftest", action="store_true")
    ap.add_argument("--no-evidence", action="store_true")
    a = ap.parse_args(argv)
    seed = int(os.environ.get("VERIF_SEED", "0"))
    t0 = time.monotonic()
    try:
        check_repo_import()
        world.tier = a.tier
        ctl = Controller(world, a.tier, seed, a.workers)
        if a.digests:
            idx = [int(x) for x in a.digests.split(",")]
            out = {}

            def on(tag, res, err):
                if err:
                    raise HarnessError(err)
                for rec in res:
                    out[str(rec["run"])] = rec["dg"]

            run_children([(tuple(idx), ctl._chunk_fn(idx), world.run_timeout * len(idx) * 2 + 60)], 1, on)
            print(json.dumps(out))
            return 0
        if a.replay:
            return replay(ctl, a.replay)
        return explore(ctl, a, t0)
    except HarnessError as e:
        print(f"HARNESS-ERROR property={world.pid} {e}", file=sys.stderr)
        return 2
    except Exception:
        traceback.print_exc()
        print(f"HARNESS-ERROR property={world.pid} unexpected exception", file=sys.stderr)
        return 2


def replay(ctl: Controller, path):
    trace = json.load(open(path))
    if "trace" in trace and "steps" not in trace:
        trace = trace["trace"]
    res = ctl.exec_trace(trace)
    print(f"replay {path}: {len(trace['steps'])} steps, digest {res['digest']}")
    unknown = 0
    for v in res["violations"]:
        k = match_known(ctl.known, v)
        tag = "KNOWN-FINDING:" if k else "violation:"
        print(f"{tag} property={ctl.w.pid} check={v['check']} site={v['site']} step={v.get('step')} {v.get('detail','')}")
        unknown += k is None
    if unknown:
        print(f"VIOLATION property={ctl.w.pid} replay={path}")
        return 1
    print("no unknown violation reproduced")
    return 0


def explore(ctl: Controller, a, t0):
    w = ctl.w
    cfg = dict(w.quick if a.tier == "quick" else w.thorough)
    if a.runs:
        cfg["runs"] = a.runs
    if a.budget:
        cfg["budget_s"] = a.budget
    if os.environ.get("VERIF_BUDGET_S"):
        cfg["budget_s"] = float(os.environ["VERIF_BUDGET_S"])
    print(f"[{w.pid}] VERIF_SEED={ctl.seed} tier={a.tier} runs<={cfg['runs']} budget={cfg['budget_s']}s workers={ctl.workers}", flush=True)
    ctl.batch(cfg["runs"], cfg["budget_s"])
    t_batch = time.monotonic() - t0
    selftests = {}
    if not a.no_selftest:
        n_re, n_fresh = w.selftest_n[a.tier]
        t1 = time.monotonic()
        selftests["re_execution"] = ctl.determinism_selftest(n_re)
        t2 = time.monotonic()
        selftests["fresh_interpreter"] = ctl.hashseed_selftest(n_fresh)
        t3 = time.monotonic()
        selftests.update(w.extra_selftests(ctl) or {})
        selftests["phase_wall_s"] = dict(batch=round(t_batch, 1), re_execution=round(t2 - t1, 1), fresh_interpreter=round(t3 - t2, 1), extra=round(time.monotonic() - t3, 1))
        print(f"[{w.pid}] phases: {selftests['phase_wall_s']}", flush=True)

    # ---- violations: group by (check, site); shrink and verify a few
    reported = []
    groups: dict[tuple, list] = collections.OrderedDict()
    for v in ctl.violations:
        groups.setdefault((v["check"], v["site"]), []).append(v)
    for (chk, site), vs in list(groups.items())[:6]:
        v = min(vs, key=lambda x: len(x["trace"]["steps"]))
        try:
            small = ctl.shrink(v, budget_s=float(os.environ.get("VERIF_SHRINK_S") or (90 if a.tier == "quick" else 300)))
        except HarnessError as e:
            ctl.errors.append(f"shrink: {e}")
            small = v["trace"]
        name = f"{w.pid}-{ctl.seed}-{prng.digest([chk, site, small['steps']])[:10]}.json"
        path = os.path.join(os.environ.get("VERIF_REPLAY_DIR") or os.path.join(VERIF, "replays"), name)
        os.makedirs(os.path.dirname(path), exist_ok=True)
        small["violation"] = dict(check=chk, site=site, detail=v.get("detail"), found_in_run=v["run"], occurrences=len(vs))
        with open(path, "w") as f:
            json.dump(small, f, indent=1, default=repr)
        # replay once more in a fresh process; only then is it a VIOLATION
        p = subprocess.run([sys.executable, os.path.join(VERIF, "check"), w.pid, "--replay", path], capture_output=True, text=True, timeout=1800)
        if p.returncode == 1 and f"check={chk} " in p.stdout:
            reported.append(dict(check=chk, site=site, replay=path, steps=len(small["steps"]), occurrences=len(vs), detail=v.get("detail")))
        else:
            ctl.errors.append(f"violation {chk}/{site} did not reproduce from {path} in a fresh process (exit {p.returncode})")

    for r in getattr(ctl, "violations_extra", []):
        # violations found by a world's own self-test (e.g. hash-seed disagreement): replay in a fresh process like any other
        p = subprocess.run([sys.executable, os.path.join(VERIF, "check"), w.pid, "--replay", r["replay"]], capture_output=True, text=True, timeout=3600)
        if p.returncode == 1 and f"check={r['check']} " in p.stdout:
            reported.append(r)
        else:
            ctl.errors.append(f"violation {r['check']}/{r['site']} did not reproduce from {r['replay']} (exit {p.returncode})")
    wall = time.monotonic() - t0
    for (chk, site), e in sorted(ctl.known_seen.items()):
        print(f"KNOWN-FINDING: property={w.pid} check={chk} site={site} occurrences={e['count']} {e['what']}")
    for wmsg in w.warnings(ctl.stats, a.tier):
        print(f"warning: {wmsg}")
    if not a.no_evidence:
        write_evidence(ctl, a.tier, cfg, wall, t_batch, selftests, reported)
    print(
        f"[{w.pid}] runs={ctl.runs} steps={ctl.steps} distinct_nontrivial={len(ctl.nontrivial_hashes)} states={len(ctl.states)} "
        f"violations={len(reported)} known={sum(e['count'] for e in ctl.known_seen.values())} wall={wall:.1f}s",
        flush=True,
    )
    if ctl.errors:
        for e in ctl.errors:
            print(f"HARNESS-ERROR property={w.pid} {e}", file=sys.stderr)
        if not reported:
            return 2
    if reported:
        for r in reported:
            print(f"violation: property={w.pid} check={r['check']} site={r['site']} steps={r['steps']} occurrences={r['occurrences']} {r['detail']}")
            print(f"VIOLATION property={w.pid} replay={r['replay']}")
        return 1
    if ctl.runs == 0:
        print(f"HARNESS-ERROR property={w.pid} no run completed", file=sys.stderr)
        return 2
    return 0


def write_evidence(ctl, tier, cfg, wall, t_batch, selftests, reported):
    w = ctl.w
    st = ctl.stats
    per_hour = ctl.runs / max(t_batch, 1e-9) * 3600
    cov = dict(
        evaluations=ctl.runs,
        distinct_nontrivial=len(ctl.nontrivial_hashes),
        rule=w.rule,
        samples=ctl.samples or [],
        distinct_traces=len(ctl.trace_hashes),
        steps_executed=ctl.steps,
        runs_per_hour=round(per_hour),
        seeds_per_hour=round(per_hour),
        simulated_time_s=round(ctl.sim_time, 3),
        fault_kinds_available=w.fault_kinds,
        faults_fired=st.get("faults", {}),
        ops=st.get("ops", {}),
        op_pair_transitions_distinct=len(st.get("pairs", {})),
        probes=st.get("probes", {}),
        checks_evaluated=st.get("checks", {}),
        distinct_abstract_states=len(ctl.states),
        abstract_state_is=w.state_abstraction,
        distinct_interleavings_is="digest of the sequence of (client id, operation kind) of a run, for runs with more than one client",
        distinct_interleavings=len(ctl.interleavings),
        components_real=w.components_real,
        components_stub=w.components_stub,
        determinism_selftest=selftests,
        known_findings_seen={f"{c}|{s}": e["count"] for (c, s), e in ctl.known_seen.items()},
        violations_reported=reported,
        harness_errors=ctl.errors,
        budget=cfg,
        workers=ctl.workers,
        exhaustive=False,
    )
    extra = st.get("extra")
    if extra:
        cov["extra"] = extra
    ev = dict(
        property_id=w.pid,
        tier=tier,
        seed=ctl.seed,
        level="exploration",
        coverage=cov,
        assumptions=w.assumptions,
        wall_s=round(wall, 2),
        violations=len(reported),
    )
    os.makedirs(os.path.join(VERIF, "evidence"), exist_ok=True)
    path = os.path.join(VERIF, "evidence", f"{w.pid}.json")
    tmp = path + ".tmp"
    with open(tmp, "w") as f:
        json.dump(ev, f, indent=1, default=repr)
    os.replace(tmp, path)
