"""Fingerprint of all state held by loaded OpenPinch modules.

Returns {path: canonical-digest}.  Covered: module globals that are not
modules/functions/classes, every function's and method's __defaults__ /
__kwdefaults__ (following __wrapped__), every class's non-callable attributes.
Excluded (interpreter / framework bookkeeping, never written by library logic):
__builtins__, __warningregistry__, __cached__, __spec__, __loader__, pydantic's
lazily built class internals, abc caches, logger internals.
"""
from __future__ import annotations

import enum
import hashlib
import logging
import sys
import types

import numpy as np

_SKIP_GLOBALS = {"__builtins__", "__warningregistry__", "__cached__", "__spec__", "__loader__", "__doc__", "__file__", "__path__", "__package__", "__name__", "__annotations__"}
_SKIP_CLASS_ATTR_PREFIX = ("__pydantic", "_abc_", "__abstractmethods__", "__signature__", "__weakref__", "__dict__", "__doc__", "__module__", "__annotations__", "__qualname__", "__firstlineno__", "__static_attributes__", "__parameters__", "__orig_bases__", "__class_getitem__", "model_fields", "model_computed_fields", "model_config", "__private_attributes__", "__class_vars__", "__slots__", "__match_args__", "__dataclass_fields__", "__dataclass_params__", "__hash__")

MAX_DEPTH = 12


def _canon(x, depth, seen):
    if x is None or isinstance(x, (bool, int, str, bytes)):
        return x
    if isinstance(x, float):
        return repr(x)
    if isinstance(x, enum.Enum):
        return ("enum", type(x).__name__, x.name)
    if isinstance(x, (np.floating, np.integer, np.bool_)):
        return repr(x.item())
    if isinstance(x, np.ndarray):
        return ("nd", x.shape, str(x.dtype), hashlib.blake2b(np.ascontiguousarray(x).tobytes() if x.dtype != object else repr(x.tolist()).encode(), digest_size=8).hexdigest())
    if isinstance(x, type):
        return ("type", f"{x.__module__}.{x.__qualname__}")
    if isinstance(x, (types.FunctionType, types.BuiltinFunctionType, types.MethodType, staticmethod, classmethod, property)):
        return ("fn", getattr(x, "__qualname__", type(x).__name__))
    if isinstance(x, types.ModuleType):
        return ("mod", x.__name__)
    if isinstance(x, logging.Logger):
        return ("logger", x.name)
    oid = id(x)
    if oid in seen or depth > MAX_DEPTH:
        return ("ref", type(x).__name__)
    seen = seen | {oid}
    if isinstance(x, dict):
        items = [(_canon(k, depth + 1, seen), _canon(v, depth + 1, seen)) for k, v in x.items()]
        return ("dict", sorted(items, key=repr))
    if isinstance(x, (list, tuple)):
        return (type(x).__name__, [_canon(v, depth + 1, seen) for v in x])
    if isinstance(x, (set, frozenset)):
        return ("set", sorted((_canon(v, depth + 1, seen) for v in x), key=repr))
    mod = type(x).__module__ or ""
    if mod.startswith("OpenPinch") or hasattr(x, "__pydantic_fields_set__"):
        d = getattr(x, "__dict__", None)
        if d is not None:
            return ("obj", type(x).__qualname__, _canon(dict(d), depth + 1, seen))
    if mod.startswith("pandas") and hasattr(x, "to_dict"):
        try:
            return ("pd", type(x).__name__, _canon(x.to_dict(), depth + 1, seen))
        except Exception:
            pass
    if mod in ("itertools", "collections", "array", "decimal", "fractions", "datetime", "uuid", "re", "builtins", "functools", "operator", "random"):
        # small standard-library objects show their state in their repr (itertools.count(7), deque([...]), ...)
        try:
            r = repr(x)
            if " at 0x" not in r and len(r) < 400:
                return ("repr", f"{mod}.{type(x).__qualname__}", r)
        except Exception:
            pass
    return ("opaque", f"{mod}.{type(x).__qualname__}")


def _dig(x) -> str:
    return hashlib.blake2b(repr(_canon(x, 0, frozenset())).encode(), digest_size=8).hexdigest()


def _fn_defaults(out, path, f, seen_fn):
    g = f
    hops = 0
    while g is not None and hops < 5:
        if id(g) in seen_fn:
            return
        seen_fn.add(id(g))
        if getattr(g, "__defaults__", None):
            out[f"{path}.__defaults__" + ("" if hops == 0 else f"[wrapped{hops}]")] = _dig(g.__defaults__)
        if getattr(g, "__kwdefaults__", None):
            out[f"{path}.__kwdefaults__" + ("" if hops == 0 else f"[wrapped{hops}]")] = _dig(g.__kwdefaults__)
        fd = getattr(g, "__dict__", None)
        if fd:
            extra = {k: v for k, v in fd.items() if k != "__wrapped__"}
            if extra:
                out[f"{path}.__dict__"] = _dig(extra)
        cl = getattr(g, "__closure__", None)
        if cl:
            cells = []
            for c in cl:
                try:
                    v = c.cell_contents
                except ValueError:
                    continue
                if isinstance(v, (dict, list, set, tuple, int, float, str, bool, bytes, type(None), np.ndarray)) or (type(v).__module__ or "").startswith("OpenPinch"):
                    cells.append(v)
            if cells:
                out[f"{path}.__closure__"] = _dig(cells)
        ci = getattr(g, "cache_info", None)
        if callable(ci):
            try:
                out[f"{path}.cache_info"] = _dig(tuple(ci()))
            except Exception:
                pass
        g = getattr(g, "__wrapped__", None)
        hops += 1


def fingerprint(prefix="OpenPinch", exclude_paths=()) -> dict:
    out: dict[str, str] = {}
    seen_fn: set[int] = set()
    seen_cls: set[int] = set()
    for mname in sorted(m for m in sys.modules if m == prefix or m.startswith(prefix + ".")):
        mod = sys.modules.get(mname)
        if mod is None:
            continue
        for name, val in sorted(vars(mod).items()):
            if name in _SKIP_GLOBALS:
                continue
            path = f"{mname}:{name}"
            if isinstance(val, types.ModuleType):
                continue
            if isinstance(val, types.FunctionType):
                if (val.__module__ or "").startswith(prefix):
                    _fn_defaults(out, f"{val.__module__}:{val.__qualname__}", val, seen_fn)
                continue
            if isinstance(val, type):
                if (val.__module__ or "").startswith(prefix) and id(val) not in seen_cls:
                    seen_cls.add(id(val))
                    cpath = f"{val.__module__}:{val.__qualname__}"
                    for an, av in sorted(vars(val).items()):
                        if an.startswith(_SKIP_CLASS_ATTR_PREFIX):
                            continue
                        f = av
                        if isinstance(av, (staticmethod, classmethod)):
                            f = av.__func__
                        if isinstance(av, property):
                            for acc in (av.fget, av.fset):
                                if acc is not None:
                                    _fn_defaults(out, f"{cpath}.{an}", acc, seen_fn)
                            continue
                        if isinstance(f, types.FunctionType):
                            _fn_defaults(out, f"{cpath}.{an}", f, seen_fn)
                            continue
                        if isinstance(av, type) or callable(av) and not isinstance(av, (dict, list)):
                            continue
                        out[f"{cpath}.{an}"] = _dig(av)
                continue
            if callable(getattr(val, "cache_info", None)) and hasattr(val, "__wrapped__"):
                _fn_defaults(out, path, val, seen_fn)
                continue
            out[path] = _dig(val)
    out.update(ambient())
    for p in exclude_paths:
        for k in [k for k in out if k.startswith(p)]:
            del out[k]
    return out


def ambient() -> dict:
    """Process-wide settings a library call has no business changing (reported under the pseudo-module 'ambient')."""
    import os
    import warnings

    out = {}
    out["ambient:os.environ"] = _dig(dict(os.environ))
    out["ambient:numpy.errstate"] = _dig(np.geterr())
    po = np.get_printoptions()
    out["ambient:numpy.printoptions"] = _dig({k: (v if isinstance(v, (int, float, str, bool, type(None))) else repr(v)) for k, v in po.items()})
    out["ambient:warnings.filters"] = _dig([(f[0], getattr(f[1], "pattern", f[1]), getattr(f[2], "__name__", str(f[2])), getattr(f[3], "pattern", f[3]), f[4]) for f in warnings.filters])
    out["ambient:cwd"] = os.getcwd()
    import decimal
    import locale
    import random
    import sys as _sys

    # NOT included: the global `random` / `numpy.random` generator states.  Third-party optimisers used by the
    # heat-pump targeting draw from numpy's global generator; that is a dependency's business, not "module-level
    # state of the library", and results that depended on it would already differ from the fresh-process oracle.
    out["ambient:decimal.context"] = repr(decimal.getcontext())
    try:
        out["ambient:locale"] = repr(locale.getlocale())
    except Exception:
        pass
    out["ambient:recursionlimit"] = repr(_sys.getrecursionlimit())
    try:
        import contextvars

        ctx = contextvars.copy_context()
        out["ambient:contextvars"] = _dig(sorted((getattr(k, "name", "?"), repr(_canon(v, 0, frozenset()))) for k, v in ctx.items() if "OpenPinch" in (getattr(type(v), "__module__", "") or "") or isinstance(v, (int, float, str, bool, dict, list, tuple, type(None)))))
    except Exception:
        pass
    out["ambient:sys.path"] = _dig(list(_sys.path))
    out["ambient:repo_files"] = _repo_listing()
    out["ambient:logging.root"] = _dig((logging.getLogger().level, len(logging.getLogger().handlers), logging.root.manager.disable))
    try:
        import pandas as pd

        out["ambient:pandas.options"] = _dig({k: repr(pd.get_option(k)) for k in ("mode.copy_on_write", "display.precision", "mode.chained_assignment", "future.no_silent_downcasting") if k in pd.options.__dir__() or True and _has_opt(pd, k)})
    except Exception:
        pass
    return out


def _repo_listing():
    """Names and sizes of the files of the repository working tree (cache files and logs a library call might drop there)."""
    import os

    repo = os.path.realpath(os.environ.get("VERIF_REPO", "/repo"))
    items = []
    skip_dirs = {".git", "__pycache__", ".pytest_cache", "_replays", "node_modules", "examples", "docs", "tests", "Excel_Version"}
    skip_files = {"timing.log"}
    for root, dirs, files in os.walk(repo):
        dirs[:] = sorted(d for d in dirs if d not in skip_dirs)
        for f in sorted(files):
            if f in skip_files or f.endswith(".pyc"):
                continue
            fp = os.path.join(root, f)
            try:
                items.append((os.path.relpath(fp, repo), os.path.getsize(fp)))
            except OSError:
                pass
    return hashlib.blake2b(repr(items).encode(), digest_size=8).hexdigest()


def _has_opt(pd, k):
    try:
        pd.get_option(k)
        return True
    except Exception:
        return False


def diff(a: dict, b: dict) -> list[str]:
    return sorted(k for k in set(a) | set(b) if a.get(k) != b.get(k))
