"""Trace minimisation by delta debugging.

A candidate is kept only if re-executing it from a pristine forked node yields a
violation with the *same check id and site key*.  Candidates of one round are
evaluated in parallel children; the first (lowest index) reproducing candidate
wins, so the result is independent of timing.
"""
from __future__ import annotations

import copy
import time

from .engine import run_children


def _reproduces_many(ctl, cands, check, site, deadline):
    """Return index of the first candidate that reproduces, or None."""
    w = ctl.w
    results: dict[int, bool] = {}

    def mk(tr):
        def fn():
            w.setup_node()
            res = w.execute(tr)
            return any(v["check"] == check and v["site"] == site for v in res["violations"])

        return fn

    def on(tag, res, err):
        results[tag] = bool(res) if not err else False

    jobs = [(i, mk(c), w.run_timeout * 4 + 30) for i, c in enumerate(cands)]
    run_children(jobs, ctl.workers, on, stop=lambda: time.monotonic() > deadline)
    for i in range(len(cands)):
        if results.get(i):
            return i
    return None


def _with_steps(trace, steps):
    t = {k: v for k, v in trace.items() if k != "steps"}
    t["steps"] = steps
    return t


def shrink_trace(ctl, trace, check, site, budget_s):
    deadline = time.monotonic() + budget_s
    trace = copy.deepcopy(trace)
    trace.pop("violation", None)
    # 1. drop whole clients
    clients = sorted({s.get("client", 0) for s in trace["steps"]})
    if len(clients) > 1:
        cands = [_with_steps(trace, [s for s in trace["steps"] if s.get("client", 0) != c]) for c in clients]
        while cands and time.monotonic() < deadline:
            i = _reproduces_many(ctl, cands, check, site, deadline)
            if i is None:
                break
            trace = cands[i]
            clients = sorted({s.get("client", 0) for s in trace["steps"]})
            if len(clients) <= 1:
                break
            cands = [_with_steps(trace, [s for s in trace["steps"] if s.get("client", 0) != c]) for c in clients]
    # 2. ddmin over steps (complements)
    steps = trace["steps"]
    n = 2
    while len(steps) >= 2 and time.monotonic() < deadline:
        size = max(1, len(steps) // n)
        chunks = [(i, min(i + size, len(steps))) for i in range(0, len(steps), size)]
        cands = [_with_steps(trace, steps[:a] + steps[b:]) for a, b in chunks]
        cands = [c for c in cands if c["steps"]]
        i = _reproduces_many(ctl, cands, check, site, deadline) if cands else None
        if i is not None:
            steps = cands[i]["steps"]
            n = max(n - 1, 2)
        elif size == 1:
            break
        else:
            n = min(n * 2, len(steps))
    trace = _with_steps(trace, steps)
    # 3. world-specific argument simplification, to a fixed point
    progress = True
    rounds = 0
    while progress and time.monotonic() < deadline and rounds < 30:
        rounds += 1
        progress = False
        cands = list(ctl.w.simplify(trace))[:256]
        if not cands:
            break
        i = _reproduces_many(ctl, cands, check, site, deadline)
        if i is not None:
            trace = cands[i]
            progress = True
    return trace
