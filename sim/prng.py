"""Seed derivation: one integer (VERIF_SEED) decides everything.

run seed   = blake2b(property | VERIF_SEED | run_index)
sub-stream = random.Random(blake2b(run seed | stream name))

Separate named sub-streams mean that adding a draw to one stream never shifts
another.  Nothing here reads a clock or os.urandom.
"""
from __future__ import annotations

import hashlib
import random


def _h(*parts) -> int:
    m = hashlib.blake2b(digest_size=8)
    for p in parts:
        m.update(str(p).encode())
        m.update(b"\x00")
    return int.from_bytes(m.digest(), "big")


def run_seed(prop: str, verif_seed: int, run_index: int) -> int:
    return _h("run", prop, verif_seed, run_index)


class Streams:
    """Named, independent PRNG sub-streams of one run seed."""

    def __init__(self, seed: int):
        self.seed = seed
        self._s: dict[str, random.Random] = {}

    def __call__(self, name: str) -> random.Random:
        r = self._s.get(name)
        if r is None:
            r = self._s[name] = random.Random(_h("stream", self.seed, name))
        return r


def digest(obj) -> str:
    """Stable digest of a JSON-able object (floats via repr)."""
    import json

    return hashlib.blake2b(
        json.dumps(obj, sort_keys=True, separators=(",", ":"), default=repr).encode(),
        digest_size=10,
    ).hexdigest()
