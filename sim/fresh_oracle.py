"""Recompute oracle answers in a genuinely fresh interpreter (cross-validation of the pristine-fork oracle and
detection of hash-seed dependence).
usage: fresh_oracle.py <query.json>            one query {problem, fc, name}: prints the digest of the answer
       fresh_oracle.py --batch <queries.json>  list of queries: each answered in its own fork of this (never-executing)
                                               interpreter; prints a JSON list of digests"""
import json
import os
import sys
import warnings

for _v in ("OMP_NUM_THREADS", "OPENBLAS_NUM_THREADS", "MKL_NUM_THREADS"):
    os.environ.setdefault(_v, "1")
sys.dont_write_bytecode = True
HERE = os.path.dirname(os.path.abspath(__file__))
sys.path.insert(0, os.path.dirname(HERE))
sys.path.insert(0, os.environ.get("VERIF_REPO", "/repo"))
warnings.filterwarnings("ignore")
from sim import prng  # noqa: E402
from sim.node import fork_call  # noqa: E402
from worlds.c11 import service_answer  # noqa: E402


def answer(q):
    a = service_answer(q["problem"], q["fc"], q["name"], False)
    return prng.digest(a.get("json") if a["kind"] == "ok" else [a["type"]])


if sys.argv[1] == "--batch":
    qs = json.load(open(sys.argv[2]))
    out = []
    for q in qs:
        try:
            out.append(fork_call(lambda q=q: answer(q), timeout=300))
        except Exception as e:
            out.append("error:" + str(e)[:80])
    print(json.dumps(out))
else:
    print(answer(json.load(open(sys.argv[1]))))
