"""Recompute one oracle answer in a genuinely fresh interpreter (cross-validation of the pristine-fork oracle).
usage: fresh_oracle.py <query.json>   (query: {problem, fc, name});  prints the digest of the answer."""
import json
import os
import sys
import warnings

for _v in ("OMP_NUM_THREADS", "OPENBLAS_NUM_THREADS", "MKL_NUM_THREADS"):
    os.environ.setdefault(_v, "1")
sys.dont_write_bytecode = True
HERE = os.path.dirname(os.path.abspath(__file__))
sys.path.insert(0, os.path.dirname(HERE))
sys.path.insert(0, os.environ.get("VERIF_REPO", "/repo"))
warnings.filterwarnings("ignore")
from sim import prng  # noqa: E402
from worlds.c11 import service_answer  # noqa: E402

q = json.load(open(sys.argv[1]))
a = service_answer(q["problem"], q["fc"], q["name"], False)
print(prng.digest(a.get("json") if a["kind"] == "ok" else [a["type"]]))
